package harness

import (
	"bytes"
	"context"
	"encoding/xml"
	"fmt"
	"io"
	"strings"
	"time"

	"mellium.im/xmlstream"
	"mellium.im/xmpp"
	"mellium.im/xmpp/jid"
	"mellium.im/xmpp/websocket"
	"verif.sim/simrt"
	"verif.sim/simrt/simnet"
)

// C01 — stream features are negotiated only when allowed, in order, at most once.

func init() { register(&Scenario{ID: "C01", Run: runC01, Alt: runC01Shared, AltEvery: 10}) }

type fcfg struct {
	idx            int
	ns             string
	nec, proh, add xmpp.SessionState
	req            bool // mandatory
	restart        bool // Negotiate returns a ReadWriter
	info           bool // informational only (Negotiate == nil)
}

func (f fcfg) String() string {
	return fmt.Sprintf("f%d{nec=%d proh=%d add=%d req=%v restart=%v info=%v}", f.idx, f.nec, f.proh, f.add, f.req, f.restart, f.info)
}

func (f fcfg) eligible(st xmpp.SessionState) bool { return st&f.nec == f.nec && st&f.proh == 0 }

type fev struct {
	alien  bool   // parse: the element handed to Parse does not have the feature's name
	kind   string // list, parse, negotiate
	ns     string
	state  xmpp.SessionState
	hdrs   int // stream headers this side has sent so far (stream epoch)
	lists  int // feature lists seen (parsed) / written so far on this side (round)
	req    bool
	err    error
	mask   xmpp.SessionState
	rw     bool
	outLen int // bytes this side had written when the call returned
	conn   any // negotiate: the connection of the session the feature was run for
}

type c01Side struct {
	name   string
	cfg    []fcfg
	log    []fev
	conn   *trackConn
	recv   bool
	ws     bool
	states []xmpp.SessionState
}

func hdrCount(tap []byte, ws bool) int {
	if ws {
		return bytes.Count(tap, []byte("<open "))
	}
	return bytes.Count(tap, []byte("<stream:stream"))
}

func (sd *c01Side) listCount() int {
	if sd.recv {
		t := sd.conn.Conn.Out().Tap
		return bytes.Count(t, []byte("<stream:features")) + bytes.Count(t, []byte("<features "))
	}
	t := sd.conn.Conn.In().Tap
	return bytes.Count(t, []byte("<stream:features")) + bytes.Count(t, []byte("<features "))
}

// feature builds the real StreamFeature value for a configuration, with observers.
func (sd *c01Side) feature(rc *RC, f fcfg) xmpp.StreamFeature {
	name := xml.Name{Space: f.ns, Local: "f"}
	ev := func(kind string, s *xmpp.Session) fev {
		e := fev{kind: kind, ns: f.ns, hdrs: hdrCount(sd.conn.Conn.Out().Tap, sd.ws), lists: sd.listCount()}
		if s != nil {
			e.state = s.State()
			e.conn = s.Conn()
			sd.states = append(sd.states, e.state)
		}
		return e
	}
	sf := xmpp.StreamFeature{
		Name: name, Necessary: f.nec, Prohibited: f.proh,
		List: func(ctx context.Context, e xmlstream.TokenWriter, start xml.StartElement) (bool, error) {
			v := ev("list", nil)
			v.req = f.req
			sd.log = append(sd.log, v)
			if err := e.EncodeToken(start); err != nil {
				return f.req, err
			}
			if f.req {
				r := xml.StartElement{Name: xml.Name{Local: "required"}}
				e.EncodeToken(r)
				e.EncodeToken(r.End())
			}
			return f.req, e.EncodeToken(start.End())
		},
		Parse: func(ctx context.Context, d *xml.Decoder, start *xml.StartElement) (bool, interface{}, error) {
			req := false
			for {
				tok, err := d.Token()
				if err != nil {
					return false, nil, err
				}
				if st, ok := tok.(xml.StartElement); ok && st.Name.Local == "required" {
					req = true
				}
				if en, ok := tok.(xml.EndElement); ok && en.Name.Local == start.Name.Local {
					break
				}
			}
			v := ev("parse", nil)
			v.req = req
			v.alien = start.Name.Local != "f"
			sd.log = append(sd.log, v)
			return req, nil, nil
		},
	}
	if !f.info {
		sf.Negotiate = func(ctx context.Context, s *xmpp.Session, data interface{}) (xmpp.SessionState, io.ReadWriter, error) {
			v := ev("negotiate", s)
			mask, _, err := exchange(s, name, "ok", f.add, nil)
			var rw io.ReadWriter
			if err == nil && f.restart {
				rw = s.Conn()
			}
			v.mask, v.err, v.rw, v.outLen = mask, err, rw != nil, len(sd.conn.Conn.Out().Tap)
			sd.log = append(sd.log, v)
			sd.states = append(sd.states, s.State())
			return mask, rw, err
		}
	}
	return sf
}

// c01ReadyMode: the universe is one voluntary feature that declares the session ready and one mandatory feature, seen
// alike by both sides and advertised together. (With more than one mandatory feature next to a ready-granting one the
// library stops after the round that set Ready; that is outside what this mode looks at.)
var c01ReadyMode bool

func genFeatureCfgs(rc *RC, label string) []fcfg {
	ch := rc.Ch
	c01ReadyMode = ch.Chance(label, 1, 10)
	if c01ReadyMode {
		return []fcfg{
			{idx: 0, ns: "urn:verif:f0", add: xmpp.Ready, proh: xmpp.Ready},
			{idx: 1, ns: "urn:verif:f1", req: true},
		}
	}
	n := ch.Range(label, 2, 6)
	bits := []xmpp.SessionState{0, xmpp.Secure, xmpp.Authn, xmpp.Secure | xmpp.Authn}
	var out []fcfg
	for i := 0; i < n; i++ {
		f := fcfg{idx: i, ns: fmt.Sprintf("urn:verif:f%d", i)}
		f.nec = bits[ch.Int(label, 4)]
		f.add = bits[ch.Int(label, 4)]
		f.proh = bits[ch.Int(label, 4)] &^ f.nec
		// the kind of stream is a prerequisite like any other bit: features for server-to-server streams only, or
		// for client-to-server streams only
		if ch.Chance(label, 1, 6) {
			if ch.Chance(label, 1, 2) {
				f.nec |= xmpp.S2S
			} else {
				f.proh |= xmpp.S2S
			}
		}
		f.req = ch.Chance(label, 1, 2)
		f.restart = ch.Chance(label, 1, 3)
		f.info = ch.Chance(label, 1, 6)
		if f.req && ch.Chance(label, 3, 4) && f.add != 0 {
			f.proh |= f.add &^ f.nec // like the built-in features: not offered again once it has done its job
		}
		if f.restart {
			// a restarting feature that stays eligible would be renegotiated on every new stream for ever
			if f.add&^f.nec == 0 {
				f.add |= bits[1+ch.Int(label, 3)] &^ f.nec
			}
			if f.add&^f.nec == 0 {
				f.restart = false
			} else {
				f.proh |= f.add &^ f.nec
			}
		}
		out = append(out, f)
	}
	if ch.Chance(label, 1, 3) {
		// one feature carries the STARTTLS namespace: the one feature the initiator may try although it was not advertised
		i := ch.Int(label, len(out))
		out[i] = fcfg{idx: i, ns: nsTLS, proh: xmpp.Secure, add: xmpp.Secure, req: ch.Chance(label, 3, 4), restart: true}
	}
	return out
}

const nsTLS = "urn:ietf:params:xml:ns:xmpp-tls"

func runC01(rc *RC) {
	ch := rc.Ch
	if d := rc.S.ConfigureDense(); d != "" {
		rc.Describe("%s", d)
	}
	class := ch.Int("workload", 3) // 0 real initiator + real receiver, 1 initiator vs scripted receiver, 2 receiver vs scripted initiator
	ws := ch.Chance("workload", 1, 4)
	init0 := []xmpp.SessionState{0, xmpp.Secure, xmpp.Secure | xmpp.Authn}[ch.Int("workload", 3)]
	// server-to-server streams where one end is scripted (a real receiver refuses every real s2s initiator, see DESIGN.md)
	s2s := class != 0 && !ws && ch.Chance("workload", 1, 4)
	contentNS := "jabber:client"
	if s2s {
		init0 |= xmpp.S2S
		contentNS = "jabber:server"
	}
	if ch.Chance("workload", 1, 2) {
		rc.Net.Chunk = func() int { return 1 + ch.Int("net", 80) }
	}
	universe := genFeatureCfgs(rc, "cfg")
	// each side gets its own view of the universe: subset, flags may disagree
	view := func(label string) []fcfg {
		var v []fcfg
		if c01ReadyMode {
			return append(v, universe...)
		}
		for _, f := range universe {
			if ch.Chance(label, 1, 6) {
				continue
			}
			g := f
			if ch.Chance(label, 1, 6) {
				g.req = !g.req
			}
			if ch.Chance(label, 1, 8) {
				g.info = !g.info
			}
			v = append(v, g)
		}
		// configured order is also drawn
		p := ch.Perm(label, len(v))
		o := make([]fcfg, len(v))
		for i, j := range p {
			o[i] = v[j]
		}
		return o
	}
	cc, sc := rc.Net.Pipe("cli", "srv")
	C := &c01Side{name: "initiator", conn: &trackConn{Conn: cc}, ws: ws}
	S := &c01Side{name: "receiver", conn: &trackConn{Conn: sc}, recv: true, ws: ws}
	ctx, cancel := context.WithTimeout(context.Background(), 2*time.Minute)
	rc.OnCleanup(func() { cancel(); cc.Close(); sc.Close() })
	mkneg := func(sd *c01Side) xmpp.Negotiator {
		var fs []xmpp.StreamFeature
		for _, f := range sd.cfg {
			fs = append(fs, sd.feature(rc, f))
		}
		cfgf := func(*xmpp.Session, *xmpp.StreamConfig) xmpp.StreamConfig { return xmpp.StreamConfig{Features: fs} }
		if ws {
			return websocket.Negotiator(cfgf)
		}
		return xmpp.NewNegotiator(cfgf)
	}
	origin := jid.MustParse("me@example.net")
	if s2s {
		origin = jid.MustParse("a.example")
	}
	var cSess, sSess *xmpp.Session
	var cErr, sErr error
	cDone, sDone := class == 2, class == 1
	var script []string // what the scripted peer did
	if class != 2 {
		C.cfg = view("cview")
		rc.Spawn("initiator", func() {
			location := origin.Domain()
			if s2s {
				location = jid.MustParse("example.net")
			}
			cSess, cErr = xmpp.NewSession(ctx, location, origin, C.conn, init0, mkneg(C))
			cDone = true
		})
	}
	if class != 1 {
		S.cfg = view("sview")
		rc.Spawn("receiver", func() {
			sSess, sErr = xmpp.ReceiveSession(ctx, S.conn, init0, mkneg(S))
			sDone = true
		})
	}
	rc.Describe("class=%d ws=%v init=%d universe=%v", class, ws, init0, universe)
	rc.Describe("initiator cfg=%v", C.cfg)
	rc.Describe("receiver cfg=%v", S.cfg)
	rc.CaseKey = fmt.Sprint(class, ws, init0)
	if s2s {
		rc.Fire("s2s-stream")
	}
	hdr := func(from, to string) string {
		if ws {
			return fmt.Sprintf(`<open xmlns="urn:ietf:params:xml:ns:xmpp-framing" version='1.0' id='sid' from='%s' to='%s'/>`, from, to)
		}
		if s2s && from == origin.String() {
			// the scripted s2s initiator does not name itself
			return fmt.Sprintf(`<?xml version='1.0'?><stream:stream xmlns='jabber:server' xmlns:stream='http://etherx.jabber.org/streams' version='1.0' id='sid' to='%s'>`, to)
		}
		return fmt.Sprintf(`<?xml version='1.0'?><stream:stream xmlns='%s' xmlns:stream='http://etherx.jabber.org/streams' version='1.0' id='sid' from='%s' to='%s'>`, contentNS, from, to)
	}
	featXML := func(fs []fcfg) string {
		var sb strings.Builder
		if ws {
			sb.WriteString(`<features xmlns="http://etherx.jabber.org/streams">`)
		} else {
			sb.WriteString(`<stream:features>`)
		}
		for _, f := range fs {
			el := "f"
			if f.idx == 97 {
				el = "g" // another element of a feature's namespace: not that feature
			}
			if f.req {
				fmt.Fprintf(&sb, `<%s xmlns='%s'><required/></%s>`, el, f.ns, el)
			} else {
				fmt.Fprintf(&sb, `<%s xmlns='%s'/>`, el, f.ns)
			}
		}
		if ws {
			sb.WriteString(`</features>`)
		} else {
			sb.WriteString(`</stream:features>`)
		}
		return sb.String()
	}
	// advertised lists of the scripted receiver, in the order it sent them
	var advertised [][]fcfg
	switch class {
	case 1:
		// scripted receiver: arbitrary advertisement sequences, acknowledges every selection
		rc.Spawn("script", func() {
			d := xml.NewDecoder(S.conn)
			nextList := func() {
				var l []fcfg
				if c01ReadyMode {
					l = append(l, universe...)
				}
				for _, f := range universe {
					if c01ReadyMode {
						break
					}
					if ch.Chance("script", 1, 2) {
						g := f
						if ch.Chance("script", 1, 4) {
							g.req = !g.req
						}
						l = append(l, g)
					}
				}
				if !c01ReadyMode && ch.Chance("script", 1, 6) {
					l = append(l, fcfg{idx: 99, ns: "urn:verif:unknown", req: ch.Chance("script", 1, 2)})
				}
				if !c01ReadyMode && ch.Chance("script", 1, 8) && len(l) > 0 {
					l = append(l, l[0]) // repeated advertisement
				}
				if !c01ReadyMode && ch.Chance("script", 1, 6) {
					// an element that shares the namespace of a configured feature which this list does not advertise, under
					// another name: it advertises nothing the initiator knows
					var absent []fcfg
					for _, f := range universe {
						in := false
						for _, g := range l {
							in = in || g.ns == f.ns
						}
						if !in {
							absent = append(absent, f)
						}
					}
					if len(absent) > 0 {
						g := absent[ch.Int("script", len(absent))]
						l = append(l, fcfg{idx: 97, ns: g.ns, req: ch.Chance("script", 1, 2)})
						rc.Fire("namesake-element")
					}
				}
				p := ch.Perm("script", len(l))
				o := make([]fcfg, len(l))
				for i, j := range p {
					o[i] = l[j]
				}
				var adv []fcfg
				for _, f := range o {
					if f.idx != 97 {
						adv = append(adv, f)
					}
				}
				advertised = append(advertised, adv)
				script = append(script, "list "+featXML(o))
				io.WriteString(S.conn, featXML(o))
			}
			lists := 0
			for lists < 12 {
				tok, err := d.Token()
				if err != nil {
					return
				}
				st, ok := tok.(xml.StartElement)
				if !ok {
					continue
				}
				switch {
				case st.Name.Local == "stream" || st.Name.Local == "open":
					io.WriteString(S.conn, hdr("example.net", origin.String()))
					nextList()
					lists++
				case st.Name.Local == "f":
					d.Skip()
					script = append(script, "ack "+st.Name.Space)
					fmt.Fprintf(S.conn, `<ok xmlns='%s'/>`, st.Name.Space)
					// a required feature that does not restart is followed by a fresh list
					for _, f := range C.cfg {
						if f.ns == st.Name.Space && !f.restart {
							was := false
							if n := len(advertised); n > 0 {
								for _, a := range advertised[n-1] {
									if a.ns == f.ns && a.req {
										was = true
									}
								}
							}
							if was {
								nextList()
								lists++
							}
						}
					}
				}
			}
		})
	case 2:
		// scripted initiator: selects out of order, twice, unadvertised, informational, unknown
		// a sixth of these runs: one of the receiver's first writes fails (the one that carries the features list, say)
		// while the initiator does not wait for the list before it sends its first selection
		pipeline := ch.Chance("faults", 1, 6)
		if pipeline {
			S.conn.Conn.WriteErrAt, S.conn.Conn.WriteErr, S.conn.Conn.WritePartial, S.conn.Conn.WriteErrOnce = ch.Range("faults", 1, 3), simnet.ErrInjected, []int{0, 0, 7, 1 << 30}[ch.Int("faults", 4)], ch.Chance("faults", 1, 2)
			rc.Fire("writeerr-plan")
		}
		rc.Spawn("script", func() {
			out := S.conn.Conn.Out()
			io.WriteString(C.conn, hdr(origin.String(), "example.net"))
			seenLists := 0
			var prev fcfg
			for step := 0; step < 10; step++ {
				// wait for the next feature list (or the end)
				simrt.WaitUntil("script:list", func() bool {
					if pipeline && step == 0 {
						return true
					}
					return sDone || bytes.Count(out.Tap, []byte("</stream:features>"))+bytes.Count(out.Tap, []byte("</features>"))+bytes.Count(out.Tap, []byte("<stream:features/>"))+bytes.Count(out.Tap, []byte(`streams"/>`))+bytes.Count(out.Tap, []byte(`streams"></features>`)) > seenLists
				})
				if sDone {
					return
				}
				seenLists++
				// pick something to select
				var pick fcfg
				switch k := ch.Int("script", 8); {
				case k < 5 && len(S.cfg) > 0:
					pick = S.cfg[ch.Int("script", len(S.cfg))]
				case k == 5:
					pick = fcfg{idx: 98, ns: "urn:verif:unknown"}
				default:
					pick = universe[ch.Int("script", len(universe))]
				}
				if prev.ns != "" && ch.Chance("script", 1, 4) {
					pick = prev // select the same feature again
				}
				prev = pick
				script = append(script, "select "+pick.ns)
				before := len(out.Tap)
				if ch.Chance("script", 1, 3) {
					// legacy form: the selection is the payload of an IQ
					fmt.Fprintf(C.conn, `<iq type='set' id='sel%d'><f xmlns='%s'/></iq>`, step, pick.ns)
				} else {
					fmt.Fprintf(C.conn, `<f xmlns='%s'/>`, pick.ns)
				}
				simrt.WaitUntil("script:ack", func() bool { return sDone || len(out.Tap) > before })
				if sDone {
					return
				}
				if bytes.Contains(out.Tap[before:], []byte("<ok")) {
					// acknowledged; restart if that feature restarts
					for _, f := range S.cfg {
						if f.ns == pick.ns && f.restart {
							script = append(script, "restart")
							io.WriteString(C.conn, hdr(origin.String(), "example.net"))
						} else if f.ns == pick.ns && !f.req {
							// a voluntary feature without restart: the receiver keeps reading selections on the same list
							seenLists--
						}
					}
				}
			}
		})
	}
	// in a fifth of the runs the caller gives up: the context ends before the call, or after a drawn number of steps -
	// also exactly between two rounds of negotiation. Whatever comes back then, "established" still means ready (c7).
	if ch.Chance("faults", 1, 5) {
		after := 0
		if ch.Chance("faults", 3, 4) {
			after = ch.Range("faults", 1, 150)
		}
		if after == 0 {
			cancel()
			rc.Fire("cancel-before-start")
		} else {
			t := rc.Spawn("canceller", func() {
				start := rc.S.Steps
				simrt.WaitUntil("cancel:steps", func() bool { return (cDone && sDone) || rc.S.Steps-start >= after })
				if !(cDone && sDone) {
					rc.Fire("cancel")
					simrt.Settle(cancel, "h:cancel")
				}
			})
			t.Daemon = true
		}
	}
	st := rc.S.Run(func() bool { return cDone && sDone }, 60000, 3*time.Minute)
	_ = st
	rc.Describe("script=%v", script)

	// ---- oracles ----
	for _, sd := range []*c01Side{C, S} {
		if (sd == C && class == 2) || (sd == S && class == 1) {
			continue
		}
		sess, err, done := cSess, cErr, cDone
		if sd == S {
			sess, err, done = sSess, sErr, sDone
		}
		cfgBy := map[string]fcfg{}
		for _, f := range sd.cfg {
			cfgBy[f.ns] = f
		}
		// rounds: features of each advertisement (receiver: List calls; initiator: Parse calls), by list counter
		adv := map[int]map[string]bool{}
		advReq := map[int]map[string]bool{}
		for _, e := range sd.log {
			if e.kind == "parse" && e.alien {
				// an element of the feature's namespace under another name is not the feature: it advertises nothing
				rc.Evals["C01.c2"]++
				rc.Failf("C01.c2", "foreign-element-taken-for-feature:"+sd.name, "%s handed an element that only shares the namespace %s to the feature's Parse: the peer had not advertised that feature", sd.name, e.ns)
				continue
			}
			if e.kind == "list" || e.kind == "parse" {
				k := e.lists
				if e.kind == "list" {
					k = e.lists + 1 // the list is being written: the opening tag is flushed with the rest
				}
				if adv[k] == nil {
					adv[k], advReq[k] = map[string]bool{}, map[string]bool{}
				}
				adv[k][e.ns] = true
				advReq[k][e.ns] = e.req
			}
		}
		negotiated := map[int]map[string]int{} // per stream epoch
		for i, e := range sd.log {
			if e.kind != "negotiate" {
				continue
			}
			f := cfgBy[e.ns]
			sig := sd.name
			// c1: prerequisites
			rc.Evals["C01.c1"]++
			if !f.eligible(e.state) {
				rc.Failf("C01.c1", "negotiated-while-ineligible:"+sig, "%s negotiated %v in state %d", sd.name, f, e.state)
			}
			// c2: advertised on the current stream (in the most recent list)
			rc.Evals["C01.c2"]++
			round := e.lists
			if sd.recv {
				// … and "advertised" means that the list went out: by the time the feature has run, as many complete lists
				// as the receiver believes to have sent are on the wire
				tp := sd.conn.Conn.Out().Tap[:min(e.outLen, len(sd.conn.Conn.Out().Tap))]
				onWire := bytes.Count(tp, []byte("</stream:features>")) + bytes.Count(tp, []byte("</features>")) + bytes.Count(tp, []byte("<stream:features/>")) + bytes.Count(tp, []byte(`streams"/>`)) + bytes.Count(tp, []byte(`streams'/>`))
				if want := sd.logListsAt(i); onWire < want {
					rc.Failf("C01.c2", "negotiated-before-list-on-wire:receiver", "receiver ran %s although only %d of the %d feature lists it produced had reached the wire (a write had failed)", e.ns, onWire, want)
				}
				round = sd.logListsAt(i)
			}
			if !adv[round][e.ns] && e.ns == nsTLS && !sd.recv && round == 1 && e.state&xmpp.Secure == 0 {
				// the sole exception: the initiator's STARTTLS attempt on the first features list of the connection
				rc.S.Probes["unadvertised-starttls"]++
			} else if !adv[round][e.ns] {
				rc.Failf("C01.c2", "negotiated-unadvertised:"+sig, "%s negotiated %s which is not in the current advertisement (round %d: %v)", sd.name, e.ns, round, adv[round])
			}
			// c3: at most once per stream
			if negotiated[e.hdrs] == nil {
				negotiated[e.hdrs] = map[string]int{}
			}
			negotiated[e.hdrs][e.ns]++
			rc.Evals["C01.c3"]++
			if negotiated[e.hdrs][e.ns] > 1 {
				rc.Failf("C01.c3", "negotiated-twice:"+sig, "%s negotiated %s %d times on stream %d", sd.name, e.ns, negotiated[e.hdrs][e.ns], e.hdrs)
			}
			if f.info {
				rc.Failf("C01.c2", "negotiated-informational:"+sig, "%s negotiated the informational feature %s", sd.name, e.ns)
			}
			// c4: voluntary before mandatory (initiator's choice)
			if !sd.recv && advReq[round][e.ns] {
				rc.Evals["C01.c4"]++
				for ns := range adv[round] {
					g, ok := cfgBy[ns]
					if !ok || ns == e.ns || advReq[round][ns] || g.info || !g.eligible(e.state) || negotiated[e.hdrs][ns] > 0 {
						continue
					}
					rc.Failf("C01.c4", "mandatory-before-voluntary", "initiator negotiated mandatory %s while the advertised, eligible, un-negotiated voluntary feature %s was still open (round %d)", e.ns, ns, round)
				}
			}
			// c6: a restart begins with a fresh stream header
			if e.rw && e.err == nil {
				rc.Evals["C01.c6"]++
				rest := bytes.TrimSpace(sd.conn.Conn.Out().Tap[e.outLen:])
				okHdr := len(rest) == 0 || bytes.HasPrefix(rest, []byte("<?xml")) || bytes.HasPrefix(rest, []byte("<stream:stream")) || bytes.HasPrefix(rest, []byte("<open "))
				if len(rest) == 0 && done && err == nil {
					rc.Failf("C01.c6", "established-without-restart:"+sig, "%s: %s returned a new ReadWriter (a restart is due) but the session was reported established without a new stream header being sent", sd.name, e.ns)
				}
				if !okHdr {
					rc.Failf("C01.c6", "restart-without-header:"+sig, "%s: after %s returned a new ReadWriter the next bytes written are %q", sd.name, e.ns, clip(string(rest), 80))
				}
			}
		}
		// c5: state bits only ever get added
		rc.Evals["C01.c5"]++
		for i := 1; i < len(sd.states); i++ {
			if sd.states[i-1]&^sd.states[i] != 0 {
				rc.Failf("C01.c5", "state-bit-lost:"+sd.name, "%s state went from %d to %d", sd.name, sd.states[i-1], sd.states[i])
			}
		}
		// c7: reported established only when ready and no eligible mandatory feature of the last advertisement is left
		if done && err == nil {
			rc.Evals["C01.c7"]++
			state := stateOf(rc, sess)
			if state&xmpp.Ready == 0 {
				rc.Failf("C01.c7", "nil-error-not-ready:"+sd.name, "%s returned nil but state is %d", sd.name, state)
			}
			// the last advertisement is the last feature list seen / written (it may be empty)
			last := sd.listCount()
			lastHdr := hdrCount(sd.conn.Conn.Out().Tap, ws)
			for ns, req := range advReq[last] {
				f, ok := cfgBy[ns]
				if !ok || !req || f.info || negotiated[lastHdr][ns] > 0 {
					continue
				}
				if f.eligible(state &^ xmpp.Ready) {
					rc.Failf("C01.c7", "ready-with-mandatory-left:"+sd.name, "%s reported established although mandatory feature %v of the last advertisement is eligible (state %d) and was not negotiated on this stream", sd.name, f, state)
				}
			}
		}
		// c8: the receiver advertises exactly the configured features whose prerequisites hold
		if sd.recv {
			checkAdvertisements(rc, sd, ws)
		}
	}
	// c9: the scripted initiator's illegitimate selections are refused without running the feature
	if class == 2 {
		rc.Evals["C01.c9"]++
		// every Negotiate call must correspond to a selection of an advertised, not yet negotiated, negotiable feature: c2/c3 above.
		// additionally: after an illegitimate selection the receiver must not be ready
		if sDone && sErr == nil {
			// count selections that were illegitimate by the reference model
			if bad := c01IllegitSelections(S, script); bad != "" {
				rc.Failf("C01.c9", "illegitimate-selection-accepted", "receiver reported success although the peer made an illegitimate selection: %s; script %v", bad, script)
			}
		}
	}
	stuck := rc.Teardown()
	rc.CheckPanics("C01.c1")
	rc.Check("C01.c1", "stuck-after-teardown", len(stuck) == 0, "tasks still blocked after teardown: %v", stuck)
}

// logListsAt: number of feature lists the receiver had written when log entry i was made.
func (sd *c01Side) logListsAt(i int) int { return sd.log[i].lists }

// checkAdvertisements compares each feature list on the receiver's wire with
// the reference model: configured features whose masks hold in the state the
// session had at that time, in configured order.
func checkAdvertisements(rc *RC, sd *c01Side, ws bool) {
	tap := sd.conn.Conn.Out().Tap
	// split the output into feature lists
	open1, open2 := "<stream:features", "<features "
	var lists []string
	rest := string(tap)
	for {
		i := strings.Index(rest, open1)
		j := strings.Index(rest, open2)
		if i < 0 || (j >= 0 && j < i) {
			i = j
		}
		if i < 0 {
			break
		}
		rest = rest[i:]
		end := strings.Index(rest, "</stream:features>")
		endLen := len("</stream:features>")
		if e2 := strings.Index(rest, "</features>"); end < 0 || (e2 >= 0 && e2 < end) {
			end, endLen = e2, len("</features>")
		}
		if e3 := strings.Index(rest, "/>"); e3 >= 0 && e3 < strings.Index(rest+">", ">") {
			end, endLen = e3, 2
		}
		if end < 0 {
			break
		}
		lists = append(lists, rest[:end+endLen])
		rest = rest[end+endLen:]
	}
	// states at listing time: from the List events (state is not recorded there), so replay the model
	st := xmpp.SessionState(0)
	if len(sd.states) > 0 {
		st = sd.states[0]
	}
	// find the initial state: the first recorded state is taken before the first negotiation
	negIdx := 0
	var negs []fev
	for _, e := range sd.log {
		if e.kind == "negotiate" {
			negs = append(negs, e)
		}
	}
	for li, l := range lists {
		// state when list li+1 was written = state recorded by the first negotiate after it, else the last known
		cur := st
		for negIdx < len(negs) && negs[negIdx].lists <= li {
			if negs[negIdx].err == nil {
				cur |= negs[negIdx].mask
			}
			negIdx++
		}
		if negIdx < len(negs) && negs[negIdx].lists == li+1 {
			cur = negs[negIdx].state
		}
		st = cur
		var want []string
		for _, f := range sd.cfg {
			if f.eligible(cur &^ xmpp.Received) {
				want = append(want, f.ns)
			}
		}
		var got []string
		d := xml.NewDecoder(strings.NewReader(l))
		depth := 0
		for {
			tok, err := d.Token()
			if err != nil {
				break
			}
			switch t := tok.(type) {
			case xml.StartElement:
				depth++
				if depth == 2 {
					got = append(got, t.Name.Space)
				}
			case xml.EndElement:
				depth--
			}
		}
		rc.Evals["C01.c8"]++
		if len(sd.states) == 0 && len(negs) == 0 {
			// no state sample at all (nothing was negotiated): the initial state is the session's configured one; covered by the model below only when known
			continue
		}
		if strings.Join(got, ",") != strings.Join(want, ",") {
			rc.Failf("C01.c8", "wrong-advertisement", "receiver's feature list %d is %v, reference (state %d, config %v) is %v", li+1, got, cur, sd.cfg, want)
		}
	}
}

// c01IllegitSelections replays the scripted initiator's selections against a
// reference model of the receiver and returns a description of the first
// selection that must have been refused.
func c01IllegitSelections(sd *c01Side, script []string) string {
	cfgBy := map[string]fcfg{}
	for _, f := range sd.cfg {
		cfgBy[f.ns] = f
	}
	st := xmpp.SessionState(0)
	if len(sd.states) > 0 {
		st = sd.states[0] &^ xmpp.Ready
	}
	negotiated := map[string]bool{}
	for _, s := range script {
		switch {
		case s == "restart":
			negotiated = map[string]bool{}
		case strings.HasPrefix(s, "select "):
			ns := strings.TrimPrefix(s, "select ")
			f, ok := cfgBy[ns]
			switch {
			case !ok:
				return "selected unconfigured " + ns
			case f.info:
				return "selected informational " + ns
			case !f.eligible(st):
				return fmt.Sprintf("selected %s which was not advertised in state %d", ns, st)
			case negotiated[ns]:
				return "selected " + ns + " twice on one stream"
			}
			negotiated[ns] = true
			st |= f.add
		}
	}
	return ""
}
