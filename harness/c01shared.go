package harness

import (
	"context"
	"encoding/xml"
	"fmt"
	"io"
	"strings"
	"time"

	"mellium.im/xmpp"
	"mellium.im/xmpp/jid"
	"mellium.im/xmpp/websocket"
)

// runC01Shared: 2-4 sessions - receiving, initiating or both - negotiate at the same time through ONE Negotiator value (what
// a server does with every connection it accepts, and what NewNegotiator documents: the configuration function picks the
// features by session). Every session has a feature list of its own, in namespaces of its own. The property's "only if
// configured / advertised" and "advertises exactly the configured features" clauses are per session: whatever another
// session's round does, a session lists, matches and negotiates its own features only.
func runC01Shared(rc *RC) {
	ch := rc.Ch
	if d := rc.S.ConfigureDense(); d != "" {
		rc.Describe("%s", d)
	}
	n := ch.Range("workload", 2, 4)
	ws := ch.Chance("workload", 1, 5)
	mode := ch.Int("workload", 3) // 0 all receiving, 1 all initiating, 2 mixed
	if ch.Chance("workload", 1, 2) {
		rc.Net.Chunk = func() int { return 1 + ch.Int("net", 40) }
	}
	type sess struct {
		i        int
		side     *c01Side
		recv     bool
		own      []fcfg
		done     bool
		peerDone bool
		err      error
		s        *xmpp.Session
		peerConn io.ReadWriteCloser
		selected []string // namespaces the scripted initiator selected / the scripted receiver saw selected
	}
	ctx, cancel := context.WithTimeout(context.Background(), time.Minute)
	rc.OnCleanup(cancel)
	var all []*sess
	byConn := map[any]*sess{}
	feats := map[*sess][]xmpp.StreamFeature{}
	cfgf := func(s *xmpp.Session, _ *xmpp.StreamConfig) xmpp.StreamConfig {
		if s == nil {
			return xmpp.StreamConfig{}
		}
		c := byConn[s.Conn()]
		if c == nil {
			return xmpp.StreamConfig{}
		}
		// a fresh slice per call, as a function that builds its list by virtual host or origin does
		return xmpp.StreamConfig{Features: append([]xmpp.StreamFeature(nil), feats[c]...)}
	}
	var neg xmpp.Negotiator
	if ws {
		neg = websocket.Negotiator(cfgf)
	} else {
		neg = xmpp.NewNegotiator(cfgf)
	}
	origin := jid.MustParse("me@example.net")
	hdr := func(from, to string) string {
		if ws {
			return fmt.Sprintf(`<open xmlns="urn:ietf:params:xml:ns:xmpp-framing" version='1.0' id='sid' from='%s' to='%s'/>`, from, to)
		}
		return fmt.Sprintf(`<?xml version='1.0'?><stream:stream xmlns='jabber:client' xmlns:stream='http://etherx.jabber.org/streams' version='1.0' id='sid' from='%s' to='%s'>`, from, to)
	}
	var union []fcfg
	for i := 0; i < n; i++ {
		c := &sess{i: i, recv: mode == 0 || (mode == 2 && ch.Chance("workload", 1, 2))}
		// same lengths are the usual case (and what lets a shared scratch list go unnoticed); every feature is voluntary and
		// unconditional, so that each is eligible at any time and a session is established after it negotiated all it wants
		k := ch.Range("workload", 1, 4)
		for j := 0; j < k; j++ {
			c.own = append(c.own, fcfg{idx: i*10 + j, ns: fmt.Sprintf("urn:verif:s%d:f%d", i, j)})
		}
		union = append(union, c.own...)
		sut, peer := rc.Net.Pipe(fmt.Sprintf("sut%d", i), fmt.Sprintf("peer%d", i))
		if ch.Chance("net", 1, 2) {
			sut.Out().Cap = ch.Range("net", 8, 60) // the peer takes what the session writes a few bytes at a time
		}
		rc.OnCleanup(func() { sut.Close(); peer.Close() })
		c.side = &c01Side{name: fmt.Sprintf("session%d", i), conn: &trackConn{Conn: sut}, recv: c.recv, ws: ws, cfg: c.own}
		c.peerConn = peer
		for _, f := range c.own {
			feats[c] = append(feats[c], c.side.feature(rc, f))
		}
		byConn[c.side.conn] = c
		all = append(all, c)
	}
	featXML := func(fs []fcfg) string {
		var sb strings.Builder
		if ws {
			sb.WriteString(`<features xmlns="http://etherx.jabber.org/streams">`)
		} else {
			sb.WriteString(`<stream:features>`)
		}
		for _, f := range fs {
			fmt.Fprintf(&sb, `<f xmlns='%s'/>`, f.ns)
		}
		if ws {
			sb.WriteString(`</features>`)
		} else {
			sb.WriteString(`</stream:features>`)
		}
		return sb.String()
	}
	for _, c := range all {
		c := c
		rc.Spawn(fmt.Sprintf("sut%d", c.i), func() {
			if c.recv {
				c.s, c.err = xmpp.ReceiveSession(ctx, c.side.conn, xmpp.Secure, neg)
			} else {
				c.s, c.err = xmpp.NewSession(ctx, origin.Domain(), origin, c.side.conn, xmpp.Secure, neg)
			}
			c.done = true
		})
		rc.Spawn(fmt.Sprintf("peer%d", c.i), func() {
			defer func() { c.peerDone = true }()
			d := xml.NewDecoder(c.peerConn)
			if c.recv {
				// scripted initiator: header, then one selection out of what this session advertised
				io.WriteString(c.peerConn, hdr(origin.String(), "example.net"))
				var adv []string
				depth := 0
				for {
					tok, err := d.Token()
					if err != nil {
						return
					}
					switch t := tok.(type) {
					case xml.StartElement:
						if t.Name.Local == "stream" || t.Name.Local == "open" {
							if t.Name.Local == "open" {
								d.Skip()
							}
							continue
						}
						depth++
						if depth == 2 && t.Name.Local == "f" {
							adv = append(adv, t.Name.Space)
						}
					case xml.EndElement:
						depth--
					}
					if depth == 0 && len(tokName(tok)) > 0 && strings.HasSuffix(tokName(tok), "features") {
						if _, end := tok.(xml.EndElement); end {
							break
						}
					}
				}
				if len(adv) == 0 {
					return
				}
				pick := adv[ch.Int("script", len(adv))]
				c.selected = append(c.selected, pick)
				fmt.Fprintf(c.peerConn, `<f xmlns='%s'/>`, pick)
				for { // the acknowledgement, then whatever else
					if _, err := d.Token(); err != nil {
						return
					}
					if c.done {
						return
					}
				}
			}
			// scripted receiver: advertises every session's features (a server that offers more than any one client wants)
			// and acknowledges whatever is selected
			for {
				tok, err := d.Token()
				if err != nil {
					return
				}
				st, ok := tok.(xml.StartElement)
				if !ok {
					continue
				}
				switch st.Name.Local {
				case "stream", "open":
					if st.Name.Local == "open" {
						d.Skip()
					}
					p := ch.Perm("script", len(union))
					o := make([]fcfg, len(union))
					for i, j := range p {
						o[i] = union[j]
					}
					io.WriteString(c.peerConn, hdr("example.net", origin.String())+featXML(o))
				case "f":
					d.Skip()
					c.selected = append(c.selected, st.Name.Space)
					fmt.Fprintf(c.peerConn, `<ok xmlns='%s'/>`, st.Name.Space)
				}
			}
		})
	}
	rc.Describe("shared negotiator: sessions=%d ws=%v mode=%d", n, ws, mode)
	for _, c := range all {
		rc.Describe("session %d recv=%v cfg=%v", c.i, c.recv, c.own)
	}
	rc.CaseKey = fmt.Sprint("shared", n, ws, mode)
	rc.Fire("shared-negotiator")
	rc.Nontrivial = true
	rc.S.Run(func() bool {
		for _, c := range all {
			if !c.done {
				return false
			}
		}
		return true
	}, 80000, 2*time.Minute)
	mine := func(c *sess, ns string) bool {
		for _, f := range c.own {
			if f.ns == ns {
				return true
			}
		}
		return false
	}
	for _, c := range all {
		role := "initiator"
		if c.recv {
			role = "receiver"
		}
		// what the observers of this session's feature values saw: every Negotiate must have been for this session
		for _, e := range c.side.log {
			if e.kind == "negotiate" {
				rc.Evals["C01.c2"]++
				if o := byConn[e.conn]; o != c {
					oi := -1
					if o != nil {
						oi = o.i
					}
					rc.Failf("C01.c2", "feature-of-another-session-negotiated:shared-negotiator", "feature %s, configured for session %d only, was negotiated on session %d (%d sessions share one Negotiator)", e.ns, c.i, oi, n)
				}
			}
		}
		if c.recv {
			// c8: the list this session put on the wire is its own configuration, in order
			tap := string(c.side.conn.Conn.Out().Tap)
			var got []string
			rest := tap
			for {
				k := strings.Index(rest, "<f xmlns=")
				if k < 0 {
					break
				}
				rest = rest[k+len("<f xmlns=")+1:]
				e := strings.IndexAny(rest, `"'`)
				if e < 0 {
					break
				}
				got = append(got, rest[:e])
			}
			complete := strings.Contains(tap, "</stream:features>") || strings.Contains(tap, "</features>")
			if complete {
				rc.Evals["C01.c8"]++
				var want []string
				for _, f := range c.own {
					want = append(want, f.ns)
				}
				first := got
				if len(first) > len(want) {
					first = first[:len(want)]
				}
				if fmt.Sprint(first) != fmt.Sprint(want) {
					rc.Failf("C01.c8", "wrong-advertisement:shared-negotiator", "session %d of %d receiving sessions that negotiate at the same time through one Negotiator advertised %v; its configuration function returned %v for it", c.i, n, got, want)
				}
			}
			for _, ns := range got {
				if !mine(c, ns) {
					rc.Failf("C01.c8", "wrong-advertisement:shared-negotiator", "session %d of %d sessions sharing one Negotiator advertised %s, which is configured for another session only (own: %v)", c.i, n, ns, c.own)
					break
				}
			}
			// the selection was one of the advertised (own) features: it must have been accepted and the session established
			if len(c.selected) == 1 && mine(c, c.selected[0]) && complete {
				rc.Evals["C01.c7"]++
				if c.done && c.err != nil && ctx.Err() == nil {
					rc.Failf("C01.c9", "legitimate-selection-refused:shared-negotiator", "session %d (receiver) advertised %v, the initiator selected %s, and ReceiveSession failed: %v", c.i, got, c.selected[0], c.err)
				}
			}
		} else {
			// c2: every selection this initiator put on the wire is a feature configured for it
			for _, ns := range c.selected {
				rc.Evals["C01.c2"]++
				if !mine(c, ns) {
					rc.Failf("C01.c2", "negotiated-unconfigured:shared-negotiator", "session %d (initiator) of %d sessions sharing one Negotiator selected %s, which is configured for another session only (own: %v)", c.i, n, ns, c.own)
					break
				}
			}
			// c7: established means nothing of its own that the peer offered (it offered everything) is left
			if c.done && c.err == nil {
				rc.Evals["C01.c7"]++
				for _, f := range c.own {
					found := false
					for _, ns := range c.selected {
						found = found || ns == f.ns
					}
					if !found {
						rc.Failf("C01.c7", "established-with-own-feature-left:shared-negotiator", "session %d (initiator) was reported established although %s, configured for it, advertised by the peer and eligible, was never negotiated (selected: %v)", c.i, f.ns, c.selected)
						break
					}
				}
			}
		}
		if c.done && c.err == nil {
			if c.s == nil || stateOf(rc, c.s)&xmpp.Ready == 0 {
				rc.Failf("C01.c7", "nil-error-not-ready:"+role, "session %d: nil error but the session is not ready", c.i)
			}
		}
	}
	stuck := rc.Teardown()
	rc.CheckPanics("C01.c1")
	rc.Check("C01.c1", "stuck-after-teardown", len(stuck) == 0, "tasks still blocked after teardown: %v", stuck)
}

func tokName(t xml.Token) string {
	switch t := t.(type) {
	case xml.StartElement:
		return t.Name.Local
	case xml.EndElement:
		return t.Name.Local
	}
	return ""
}
