package harness

import (
	"bytes"
	"context"
	"crypto/tls"
	"crypto/x509"
	"encoding/xml"
	"fmt"
	"io"
	"os"
	"regexp"
	"strings"
	"time"

	"mellium.im/sasl"
	"mellium.im/xmpp"
	"mellium.im/xmpp/jid"
	"mellium.im/xmpp/websocket"
	"verif.sim/simrt"
)

// C02 — a client asked to use STARTTLS never proceeds in clear text.

func init() { register(&Scenario{ID: "C02", Run: runC02, Alt: c02Overlap, AltEvery: 8}) }

type c02Plan struct {
	list   int // first feature list variant
	answer int // reply to <starttls/>
	cutAt  int
	// the peer's first (clear-text) header addresses somebody else: it must not get to choose the name the client
	// puts into its ClientHello and verifies the certificate against
	foreignTo bool
	// the server the client connects to is not the domain of its own address (a gateway, a hosted domain)
	gateway bool
	// the caller gives up: 1 the context has ended before the call, 2 it ends when the peer's answer to <starttls/> is on
	// its way, 3 after a drawn number of steps; plainT: on a transport without deadlines (nothing interrupts its I/O)
	cancelMode, cancelSteps int
	plainT                  bool
	// protHdr: the header the server sends inside TLS: 0 complete, 1 without id, 2 without version, 3 without either, 4
	// without xml:lang and from (what it had sent in clear must not fill the gaps)
	protHdr int
}

var c02Lists = []string{"starttls-required", "starttls-optional", "starttls-absent-sasl-offered", "empty", "starttls-among-others", "unknown-only", "bind-and-sasl-only", "starttls-and-secure-only-voluntary", "starttls-required-with-sasl-and-bind"}
var c02Answers = []string{"proceed", "proceed", "failure", "garbage", "other-namespace", "proceed+pipelined-plaintext", "silence", "cut", "proceed-then-garbage", "whitespace", "whitespace-then-features", "text"}

type c02Outcome struct {
	err        error
	state      xmpp.SessionState
	handshake  bool
	inID       string
	clearOut   []byte // client->server bytes before the first TLS record
	sni        string
	sniSeen    bool
	teeIn      []byte
	teeOut     []byte
	plainSeen  []byte // plaintext of the whole stream as the session saw/wrote it (tee)
	tlsInside  []byte // what the server sent inside TLS
	done       bool
	finishedAt time.Duration
}

// c02Neg is ONE negotiator value used for every session of a run (as an application that builds it once would); the
// tee destinations of the session in progress are read from it when the negotiator asks for its configuration.
type c02Neg struct {
	neg           xmpp.Negotiator
	teeIn, teeOut *bytes.Buffer
}

func newC02Neg(feats []xmpp.StreamFeature, tee bool) *c02Neg {
	// the destinations exist before the negotiator does (it asks for its configuration once when it is built)
	n := &c02Neg{teeIn: &bytes.Buffer{}, teeOut: &bytes.Buffer{}}
	n.neg = xmpp.NewNegotiator(func(*xmpp.Session, *xmpp.StreamConfig) xmpp.StreamConfig {
		cfg := xmpp.StreamConfig{Features: feats}
		if tee {
			cfg.TeeIn, cfg.TeeOut = n.teeIn, n.teeOut
		}
		return cfg
	})
	return n
}

// nothing but the declaration, the header and the STARTTLS request: no closing tag either (the statement says "never
// transmits anything except its stream header and the STARTTLS request"; the library, as it stands, sends none)
var c02ClearRe = regexp.MustCompile(`^\s*(<\?xml[^>]*\?>)?\s*<stream:stream [^>]*>\s*(<starttls xmlns='urn:ietf:params:xml:ns:xmpp-tls'/>)?\s*$`)

// c02Session runs one client session against the scripted server.
func c02Session(rc *RC, idx int, tag string, origin jid.JID, neg *c02Neg, plan c02Plan, tee bool, cert tls.Certificate) c02Outcome {
	var o c02Outcome
	cc, sc := rc.Net.Pipe(fmt.Sprintf("cli%d%s", idx, tag), fmt.Sprintf("srv%d%s", idx, tag))
	ctx, cancel := context.WithTimeout(context.Background(), 20*time.Second)
	defer func() { cancel(); cc.Close(); sc.Close() }()
	teeIn, teeOut := neg.teeIn, neg.teeOut
	teeIn.Reset()
	teeOut.Reset()
	var sess *xmpp.Session
	location := origin.Domain()
	if plan.gateway {
		location = jid.MustParse("gw." + origin.Domain().String())
	}
	var crw io.ReadWriter = cc
	if plan.plainT {
		crw = plainRW{&trackConn{Conn: cc}}
	}
	switch plan.cancelMode {
	case 1:
		cancel()
		rc.Fire("cancel-before-start")
	case 2, 3:
		t := rc.Spawn("canceller"+tag, func() {
			start := rc.S.Steps
			simrt.WaitUntil("cancel", func() bool {
				if o.done {
					return true
				}
				if plan.cancelMode == 2 {
					tp := sc.Out().Tap
					return bytes.Contains(tp, []byte("<proceed")) || bytes.Contains(tp, []byte("<failure")) || bytes.Count(tp, []byte("<stream:features")) > 1
				}
				return rc.S.Steps-start >= plan.cancelSteps
			})
			if !o.done {
				rc.Fire("cancel")
				simrt.Settle(cancel, "h:cancel")
			}
		})
		t.Daemon = true
	}
	sut := rc.Spawn("client"+tag, func() {
		sess, o.err = xmpp.NewSession(ctx, location, origin, crw, 0, neg.neg)
		o.done, o.finishedAt = true, rc.S.Now()
	})
	out := cc.Out()
	var inside bytes.Buffer
	srv := rc.Spawn("server"+tag, func() {
		waitFor := func(sub string, n int) bool {
			simrt.WaitUntil("srv:"+sub, func() bool { return o.done || bytes.Count(out.Tap, []byte(sub)) >= n })
			return bytes.Count(out.Tap, []byte(sub)) >= n
		}
		if !waitFor("<stream:stream", 1) {
			return
		}
		simrt.WaitUntil("srv:hdrend", func() bool { return o.done || bytes.HasSuffix(bytes.TrimSpace(out.Tap), []byte(">")) })
		hdr := func(w io.Writer, id string, features string) {
			fmt.Fprintf(w, `<?xml version='1.0'?><stream:stream xmlns='jabber:client' xmlns:stream='http://etherx.jabber.org/streams' version='1.0' id='%s' from='%s'>%s`, id, location, features)
		}
		tlsReq, tlsOpt := `<starttls xmlns='urn:ietf:params:xml:ns:xmpp-tls'><required/></starttls>`, `<starttls xmlns='urn:ietf:params:xml:ns:xmpp-tls'/>`
		mech := `<mechanisms xmlns='urn:ietf:params:xml:ns:xmpp-sasl'><mechanism>SCRAM-SHA-256</mechanism><mechanism>SCRAM-SHA-1</mechanism><mechanism>PLAIN</mechanism></mechanisms>`
		bindF := `<bind xmlns='urn:ietf:params:xml:ns:xmpp-bind'/>`
		var fl string
		switch c02Lists[plan.list] {
		case "starttls-required":
			fl = tlsReq
		case "starttls-optional":
			fl = tlsOpt
		case "starttls-absent-sasl-offered":
			fl = mech
		case "empty":
			fl = ""
		case "starttls-required-with-sasl-and-bind":
			// everything the server has, mandatory, in one list (in either order)
			fl = []string{tlsReq + mech + bindF, mech + bindF + tlsReq}[plan.answer%2]
		case "starttls-among-others":
			fl = `<x xmlns='urn:verif:unknown'/>` + tlsOpt + mech
		case "unknown-only":
			fl = `<x xmlns='urn:verif:unknown'/>`
		case "bind-and-sasl-only":
			fl = mech + bindF
		case "starttls-and-secure-only-voluntary":
			// a voluntary feature the client supports, but only on a secured stream, offered next to STARTTLS
			fl = `<vol xmlns='urn:verif:secvol'/>` + []string{tlsOpt, tlsReq}[plan.answer%2]
		}
		if plan.foreignTo {
			fmt.Fprintf(sc, `<?xml version='1.0'?><stream:stream xmlns='jabber:client' xmlns:stream='http://etherx.jabber.org/streams' version='1.0' id='clear-first' from='%s' to='me@attacker.example'><stream:features>%s</stream:features>`, location, fl)
		} else {
			hdr(sc, "clear-first", `<stream:features>`+fl+`</stream:features>`)
		}
		// a client that goes on in clear text is answered so that the breach becomes visible as a ready session
		clearHelper := func() {
			for i := 0; i < 6 && !o.done; i++ {
				before := len(out.Tap)
				simrt.WaitUntil("srv:clear", func() bool { return o.done || len(out.Tap) > before })
				tail := out.Tap[before:]
				switch {
				case bytes.Contains(tail, []byte("<auth")):
					io.WriteString(sc, `<success xmlns='urn:ietf:params:xml:ns:xmpp-sasl'/>`)
				case bytes.Contains(tail, []byte("<stream:stream")):
					hdr(sc, "clear-again", `<stream:features>`+bindF+`</stream:features>`)
				case bytes.Contains(tail, []byte("<bind")):
					id := ""
					if m := regexp.MustCompile(`id="([^"]*)"`).FindSubmatch(tail); m != nil {
						id = string(m[1])
					}
					fmt.Fprintf(sc, `<iq type='result' id='%s'><bind xmlns='urn:ietf:params:xml:ns:xmpp-bind'><jid>%s</jid></bind></iq>`, id, origin)
				}
			}
		}
		simrt.WaitUntil("srv:starttls", func() bool {
			return o.done || bytes.Contains(out.Tap, []byte("<starttls")) || bytes.Contains(out.Tap, []byte("<auth")) || bytes.Contains(out.Tap, []byte("<iq"))
		})
		if !bytes.Contains(out.Tap, []byte("<starttls")) {
			clearHelper()
			return
		}
		proceed := `<proceed xmlns='urn:ietf:params:xml:ns:xmpp-tls'/>`
		switch c02Answers[plan.answer] {
		case "failure":
			io.WriteString(sc, `<failure xmlns='urn:ietf:params:xml:ns:xmpp-tls'/>`)
			clearHelper()
			return
		case "garbage":
			io.WriteString(sc, `<foo/>`)
			clearHelper()
			return
		case "other-namespace":
			io.WriteString(sc, `<proceed xmlns='urn:other'/>`)
			clearHelper()
			return
		case "whitespace":
			// a keep-alive is not an answer
			io.WriteString(sc, "\r\n\t ")
			clearHelper()
			return
		case "whitespace-then-features":
			io.WriteString(sc, "\n<stream:features>"+mech+"</stream:features>")
			clearHelper()
			return
		case "text":
			io.WriteString(sc, "proceed")
			clearHelper()
			return
		case "silence":
			return
		case "cut":
			sc.Out().CutNow()
			sc.CloseWrite()
			rc.Fire("cut")
			return
		case "proceed-then-garbage":
			io.WriteString(sc, proceed+"this is not a TLS record, nor is this: <stream:features/>")
			clearHelper()
			return
		case "proceed+pipelined-plaintext":
			rc.Fire("mitm-pipelined-plaintext")
			io.WriteString(sc, proceed+`<?xml version='1.0'?><stream:stream xmlns='jabber:client' xmlns:stream='http://etherx.jabber.org/streams' version='1.0' id='clear-id' from='`+location.String()+`'><stream:features/>`)
		default:
			io.WriteString(sc, proceed)
		}
		// drain the clear-text part of the client's stream, then: real TLS server and a correct server inside TLS
		clearLen := bytes.Index(out.Tap, []byte("<starttls"))
		clearLen += bytes.Index(out.Tap[clearLen:], []byte("/>")) + 2
		if _, err := io.CopyN(io.Discard, sc, int64(clearLen)); err != nil {
			return
		}
		ts := tls.Server(sc, &tls.Config{Certificates: []tls.Certificate{cert}, MinVersion: tls.VersionTLS12,
			GetConfigForClient: func(h *tls.ClientHelloInfo) (*tls.Config, error) {
				o.sni, o.sniSeen = h.ServerName, true
				return nil, nil
			}})
		if err := ts.Handshake(); err != nil {
			return
		}
		w := io.MultiWriter(ts, &inside)
		d := xml.NewDecoder(ts)
		stage := 0
		for n := 0; n < 30; n++ {
			tok, err := d.Token()
			if err != nil {
				return
			}
			st, ok := tok.(xml.StartElement)
			if !ok {
				continue
			}
			switch {
			case st.Name.Local == "stream":
				if stage == 0 && plan.protHdr != 0 {
					idA, verA, rest := ` id='tls-id'`, ` version='1.0'`, fmt.Sprintf(` from='%s'`, location)
					switch plan.protHdr {
					case 1:
						idA = ""
					case 2:
						verA = ""
					case 3:
						idA, verA = "", ""
					case 4:
						rest = ""
					}
					rc.Fire("protected-header-incomplete")
					fmt.Fprintf(w, `<?xml version='1.0'?><stream:stream xmlns='jabber:client' xmlns:stream='http://etherx.jabber.org/streams'%s%s%s><stream:features>%s</stream:features>`, verA, idA, rest, mech)
				} else if stage == 0 {
					hdr(w, "tls-id", `<stream:features>`+mech+`</stream:features>`)
				} else {
					hdr(w, "tls-id2", `<stream:features>`+bindF+`</stream:features>`)
				}
				d = xml.NewDecoder(ts)
			case st.Name.Local == "auth":
				d.Skip()
				io.WriteString(w, `<success xmlns='urn:ietf:params:xml:ns:xmpp-sasl'/>`)
				stage = 1
			case st.Name.Local == "iq":
				id := ""
				for _, a := range st.Attr {
					if a.Name.Local == "id" {
						id = a.Value
					}
				}
				d.Skip()
				fmt.Fprintf(w, `<iq type='result' id='%s'><bind xmlns='urn:ietf:params:xml:ns:xmpp-bind'><jid>%s</jid></bind></iq>`, id, escText(origin.String()))
				return
			default:
				d.Skip()
			}
		}
	})
	rc.S.Run(func() bool { return sut.Done() }, 60000, 30*time.Second)
	if sess != nil {
		o.state = stateOf(rc, sess)
		o.handshake = sess.ConnectionState().HandshakeComplete
		o.inID = sess.In().ID
	}
	tap := out.Tap
	if i := bytes.IndexByte(tap, 0x16); i >= 0 {
		o.clearOut = append([]byte(nil), tap[:i]...)
	} else {
		o.clearOut = append([]byte(nil), tap...)
	}
	o.teeIn, o.teeOut, o.tlsInside = append([]byte(nil), teeIn.Bytes()...), append([]byte(nil), teeOut.Bytes()...), inside.Bytes()
	cancel()
	cc.Close()
	sc.Close()
	rc.S.Run(func() bool { return sut.Done() && srv.Done() }, 20000, time.Minute)
	return o
}

var c02ClearReWS = regexp.MustCompile(`^\s*<open [^>]*/>\s*(<starttls xmlns='urn:ietf:params:xml:ns:xmpp-tls'/>)?\s*$`)

// c02SessionWS: the same client over WebSocket framing (RFC 7395) on a connection that is not secure. The scripted server
// never lets TLS happen (it answers <starttls/> with failure, garbage, white space, silence or a cut), and plays along in
// clear text with whatever else the client sends: every outcome must be an error, and nothing but <open/> and the
// STARTTLS request may have left the client.
func c02SessionWS(rc *RC, idx int, tag string, origin jid.JID, feats []xmpp.StreamFeature, plan c02Plan, tee bool) c02Outcome {
	var o c02Outcome
	cc, sc := rc.Net.Pipe(fmt.Sprintf("wcli%d%s", idx, tag), fmt.Sprintf("wsrv%d%s", idx, tag))
	ctx, cancel := context.WithTimeout(context.Background(), 20*time.Second)
	defer func() { cancel(); cc.Close(); sc.Close() }()
	var teeIn, teeOut bytes.Buffer
	neg := websocket.Negotiator(func(*xmpp.Session, *xmpp.StreamConfig) xmpp.StreamConfig {
		cfg := xmpp.StreamConfig{Features: feats}
		if tee {
			cfg.TeeIn, cfg.TeeOut = &teeIn, &teeOut
		}
		return cfg
	})
	var sess *xmpp.Session
	sut := rc.Spawn("wsclient"+tag, func() {
		sess, o.err = xmpp.NewSession(ctx, origin.Domain(), origin, cc, 0, neg)
		o.done, o.finishedAt = true, rc.S.Now()
	})
	out := cc.Out()
	srv := rc.Spawn("wsserver"+tag, func() {
		wait := func(sub string, n int) bool {
			simrt.WaitUntil("wsrv:"+sub, func() bool { return o.done || bytes.Count(out.Tap, []byte(sub)) >= n })
			return bytes.Count(out.Tap, []byte(sub)) >= n
		}
		if !wait("<open ", 1) {
			return
		}
		simrt.WaitUntil("wsrv:hdrend", func() bool { return o.done || bytes.HasSuffix(bytes.TrimSpace(out.Tap), []byte("/>")) })
		tlsReq, tlsOpt := `<starttls xmlns='urn:ietf:params:xml:ns:xmpp-tls'><required/></starttls>`, `<starttls xmlns='urn:ietf:params:xml:ns:xmpp-tls'/>`
		mech := `<mechanisms xmlns='urn:ietf:params:xml:ns:xmpp-sasl'><mechanism>SCRAM-SHA-1</mechanism><mechanism>PLAIN</mechanism></mechanisms>`
		bindF := `<bind xmlns='urn:ietf:params:xml:ns:xmpp-bind'/>`
		fl := map[string]string{"starttls-required": tlsReq, "starttls-optional": tlsOpt, "starttls-absent-sasl-offered": mech, "empty": "", "starttls-among-others": `<x xmlns='urn:verif:unknown'/>` + tlsOpt + mech,
			"unknown-only": `<x xmlns='urn:verif:unknown'/>`, "bind-and-sasl-only": mech + bindF, "starttls-and-secure-only-voluntary": `<vol xmlns='urn:verif:secvol'/>` + tlsOpt,
			"starttls-required-with-sasl-and-bind": tlsReq + mech + bindF}[c02Lists[plan.list]]
		open := func(id string) string {
			return fmt.Sprintf(`<open xmlns="urn:ietf:params:xml:ns:xmpp-framing" id='%s' from='%s' version='1.0'/>`, id, origin.Domain())
		}
		feat := func(inner string) string {
			if inner == "" && plan.answer%2 == 0 {
				return `<features xmlns="http://etherx.jabber.org/streams"/>`
			}
			return `<features xmlns="http://etherx.jabber.org/streams">` + inner + `</features>`
		}
		io.WriteString(sc, open("ws1")+feat(fl))
		// whatever the client does next in clear text, play along
		seen := len(out.Tap)
		for step := 0; step < 8 && !o.done; step++ {
			simrt.WaitUntil("wsrv:next", func() bool { return o.done || len(out.Tap) > seen })
			if o.done {
				return
			}
			tail := string(out.Tap[seen:])
			seen = len(out.Tap)
			switch {
			case strings.Contains(tail, "<starttls"):
				switch plan.answer % 5 {
				case 0:
					io.WriteString(sc, `<failure xmlns='urn:ietf:params:xml:ns:xmpp-tls'/>`)
				case 1:
					io.WriteString(sc, `<foo xmlns='urn:x'/>`)
				case 2:
					io.WriteString(sc, " \n ")
				case 3:
					return // silence
				default:
					sc.Out().CutNow()
					sc.CloseWrite()
					rc.Fire("cut")
					return
				}
			case strings.Contains(tail, "<auth"):
				io.WriteString(sc, `<success xmlns='urn:ietf:params:xml:ns:xmpp-sasl'/>`)
			case strings.Contains(tail, "<open "):
				io.WriteString(sc, open("ws2")+feat(bindF))
			case strings.Contains(tail, "<iq"):
				id := ""
				if m := regexp.MustCompile(`id="([^"]*)"`).FindStringSubmatch(tail); m != nil {
					id = m[1]
				}
				fmt.Fprintf(sc, `<iq xmlns='jabber:client' type='result' id='%s'><bind xmlns='urn:ietf:params:xml:ns:xmpp-bind'><jid>%s</jid></bind></iq>`, id, origin)
			}
		}
	})
	rc.S.Run(func() bool { return sut.Done() }, 60000, 30*time.Second)
	if sess != nil {
		o.state = stateOf(rc, sess)
		o.handshake = sess.ConnectionState().HandshakeComplete
	}
	o.clearOut = append([]byte(nil), out.Tap...)
	cancel()
	cc.Close()
	sc.Close()
	rc.S.Run(func() bool { return sut.Done() && srv.Done() }, 20000, time.Minute)
	return o
}

func runC02(rc *RC) {
	ch := rc.Ch
	if d := rc.S.ConfigureDense(); d != "" {
		rc.Describe("%s", d)
	}
	if ch.Chance("workload", 1, 2) {
		rc.Net.Chunk = func() int { return 1 + ch.Int("net", 150) }
	}
	useNil := ch.Chance("workload", 1, 2)
	nSess := ch.Range("workload", 1, 3)
	domains := []string{"example.net", "other.example", "third.example.org"}
	cert, pool := mkcert("example.net")
	_ = x509.NewCertPool
	var cfg *tls.Config
	if !useNil {
		cfg = &tls.Config{RootCAs: pool, ServerName: "example.net", MinVersion: tls.VersionTLS12}
	}
	// ONE set of feature values reused for every session of the sequence
	secVol := volFeature("urn:verif:secvol", nil)
	secVol.Necessary = xmpp.Secure
	// the client's mechanisms: PLAIN only, PLAIN after SCRAM, or nothing that ever sends the password itself
	mechs := [][]sasl.Mechanism{{sasl.Plain}, {sasl.Plain}, {sasl.ScramSha256, sasl.ScramSha1, sasl.Plain}, {sasl.ScramSha256, sasl.ScramSha1}, {sasl.ScramSha1}}[ch.Int("workload", 5)]
	rc.Describe("client mechanisms: %d", len(mechs))
	feats := []xmpp.StreamFeature{secVol, xmpp.StartTLS(cfg), xmpp.SASL("", "pass", mechs...), xmpp.BindResource()}
	// ... and ONE negotiator per tee setting, reused as well
	negOff, negOn := newC02Neg(feats, false), newC02Neg(feats, true)
	rc.Describe("cfg-nil=%v sessions=%d", useNil, nSess)
	for i := 0; i < nSess; i++ {
		dom := "example.net"
		if useNil {
			dom = domains[ch.Int("workload", len(domains))]
		}
		origin := jid.MustParse("me@" + dom + "/r")
		plan := c02Plan{list: ch.Int("script", len(c02Lists)), answer: ch.Int("script", len(c02Answers)), foreignTo: ch.Chance("script", 1, 5), gateway: useNil && ch.Chance("script", 1, 5)}
		if ch.Chance("script", 1, 4) {
			plan.protHdr = 1 + ch.Int("script", 4)
		}
		if ch.Chance("faults", 1, 5) {
			plan.cancelMode = 1 + ch.Int("faults", 3)
			plan.cancelSteps = ch.Range("faults", 1, 200)
			plan.plainT = plan.cancelMode != 1 && ch.Chance("faults", 1, 2)
		}
		if f := os.Getenv("C02_FORCE"); f != "" {
			fmt.Sscanf(f, "%d,%d", &plan.list, &plan.answer)
		}
		rc.Describe("session %d origin=%s list=%s answer=%s foreign-to=%v gateway=%v cancel=%d/%d plain=%v", i, origin, c02Lists[plan.list], c02Answers[plan.answer], plan.foreignTo, plan.gateway, plan.cancelMode, plan.cancelSteps, plan.plainT)
		rc.CaseKey += fmt.Sprint(useNil, plan)
		if ch.Chance("workload", 1, 5) {
			// WebSocket framing: no TLS ever happens here, so every outcome has to be an error
			rc.Fire("websocket-framing")
			for k, tee := range []bool{false, true} {
				o := c02SessionWS(rc, i, []string{"a", "b"}[k], origin, feats, plan, tee)
				teeS := []string{"tee-off", "tee-on"}[k]
				sig := "ws:" + c02Lists[plan.list] + "/" + fmt.Sprint(plan.answer%5) + "/" + teeS
				rc.Describe("  ws %s: err=%v state=%v", teeS, o.err, o.state)
				rc.Evals["C02.c1"]++
				if !c02ClearReWS.Match(o.clearOut) {
					rc.Failf("C02.c1", "cleartext-beyond-starttls:"+sig, "client wrote in clear text (WebSocket framing): %q", clip(string(o.clearOut), 400))
				}
				rc.Evals["C02.c2"]++
				if !o.done {
					rc.Failf("C02.c2", "client-hangs:"+sig, "client did not return within its context's deadline; stuck %v", rc.S.Stuck())
				} else if o.err == nil || o.state&xmpp.Ready != 0 {
					rc.Failf("C02.c2", "ready-without-tls:"+sig, "client returned err=%v state=%v over WebSocket framing on a connection that was never secured", o.err, o.state)
				}
			}
			continue
		}
		off := c02Session(rc, i, "a", origin, negOff, plan, false, cert)
		on := c02Session(rc, i, "b", origin, negOn, plan, true, cert)
		for k, o := range []c02Outcome{off, on} {
			teeS := []string{"tee-off", "tee-on"}[k]
			rc.Describe("  %s: err=%v state=%v sni=%q(seen=%v) in.id=%q", teeS, o.err, o.state, o.sni, o.sniSeen, o.inID)
			sig := c02Lists[plan.list] + "/" + c02Answers[plan.answer] + "/" + teeS
			// c1: nothing but the header and the STARTTLS request leaves in clear
			rc.Evals["C02.c1"]++
			if plan.cancelMode > 0 && len(bytes.TrimSpace(o.clearOut)) == 0 {
				// the caller gave up before anything was written
			} else if !c02ClearRe.Match(o.clearOut) {
				rc.Failf("C02.c1", "cleartext-beyond-starttls:"+sig, "client wrote in clear text: %q", clip(string(o.clearOut), 400))
			}
			// c2: error, or a TLS-protected stream
			rc.Evals["C02.c2"]++
			if !o.done && plan.plainT {
				// nothing can interrupt a read on a transport without deadlines: not a hang of the library's making
			} else if !o.done {
				rc.Failf("C02.c2", "client-hangs:"+sig, "client did not return within its context's deadline; stuck %v", rc.S.Stuck())
			} else if o.err == nil || o.state&xmpp.Ready != 0 {
				if o.state&xmpp.Secure == 0 || !o.handshake {
					rc.Failf("C02.c2", "ready-without-tls:"+sig, "client returned err=%v state=%v (Secure=%v, TLS handshake complete=%v) on a connection that was never secured", o.err, o.state, o.state&xmpp.Secure != 0, o.handshake)
				}
			}
			// c3: clear text pipelined behind <proceed/> is never interpreted as the protected stream
			if c02Answers[plan.answer] == "proceed+pipelined-plaintext" && o.done {
				rc.Evals["C02.c3"]++
				if o.inID == "clear-id" {
					rc.Failf("C02.c3", "pipelined-plaintext-interpreted:"+teeS, "the session took the clear-text header injected behind <proceed/> for the protected stream (In().ID = %q)", o.inID)
				}
				if o.err == nil && !strings.HasPrefix(o.inID, "tls-id") {
					rc.Failf("C02.c3", "protected-stream-id-wrong:"+teeS, "established session reports stream id %q, the server sent tls-id inside TLS", o.inID)
				}
			}
			// c3: nothing of the clear-text stream (its header's id, version, …) is part of the protected stream
			if o.done && o.handshake {
				rc.Evals["C02.c3"]++
				if o.err == nil && strings.HasPrefix(o.inID, "clear") {
					rc.Failf("C02.c3", "clear-text-id-in-protected-stream:"+teeS, "the established session reports stream id %q, which the server only ever sent in clear text (its header inside TLS: variant %d)", o.inID, plan.protHdr)
				}
				if o.err == nil && (plan.protHdr == 2 || plan.protHdr == 3) {
					rc.Failf("C02.c3", "clear-text-version-in-protected-stream:"+teeS, "the server's header inside TLS has no version attribute (variant %d) and the session was established all the same: the version it had sent in clear text was taken for the protected stream's", plan.protHdr)
				}
			}
			// c4: default config names this session's own domain
			if useNil && o.sniSeen {
				rc.Evals["C02.c4"]++
				if o.sni != origin.Domain().String() {
					rc.Failf("C02.c4", "sni-of-another-session", "session %d for %s sent server name %q in its ClientHello (feature value reused across sessions)", i, origin, o.sni)
				}
			}
		}
		// c5: the tee changes nothing
		rc.Evals["C02.c5"]++
		norm := func(b []byte) string { return regexp.MustCompile(`id='[^']*'`).ReplaceAllString(string(b), "id=''") }
		if plan.cancelMode > 0 {
		} else if norm(off.clearOut) != norm(on.clearOut) {
			rc.Failf("C02.c5", "tee-changes-cleartext:"+c02Lists[plan.list]+"/"+c02Answers[plan.answer], "clear-text bytes differ: tee off %q, tee on %q", clip(string(off.clearOut), 300), clip(string(on.clearOut), 300))
		}
		if plan.cancelMode > 0 {
			// a cancellation (whether the header still gets out before the deadline helper acts is a matter of scheduling; one placed by step count or by the peer's progress lands at different points of the two executions)
		} else if (off.err == nil) != (on.err == nil) || off.state != on.state {
			rc.Failf("C02.c5", "tee-changes-outcome:"+c02Lists[plan.list]+"/"+c02Answers[plan.answer], "outcome differs: tee off err=%v state=%v, tee on err=%v state=%v", off.err, off.state, on.err, on.state)
		}
		if on.done && on.err == nil && len(on.tlsInside) > 0 {
			// tee contents equal the plaintext seen by the session: everything the server sent inside TLS is in TeeIn
			if !bytes.Contains(on.teeIn, on.tlsInside[:min(len(on.tlsInside), 60)]) {
				rc.Failf("C02.c5", "tee-in-misses-protected-stream", "TeeIn does not contain what the server sent inside TLS: tee %q", clip(string(on.teeIn), 200))
			}
		}
	}
}
