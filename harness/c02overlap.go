package harness

import (
	"bytes"
	"context"
	"crypto/tls"
	"fmt"
	"io"
	"time"

	"mellium.im/sasl"
	"mellium.im/xmpp"
	"mellium.im/xmpp/jid"
	"verif.sim/simrt"
)

// c02Overlap: 2-3 sessions of one process, for accounts on different domains, are established AT THE SAME TIME with one set
// of feature values (StartTLS(nil) among them) - a client with several accounts, a server dialling several peers. c4: each
// session's ClientHello names that session's own domain, whatever the others are doing; c2: ready only on a secured stream.
func c02Overlap(rc *RC) {
	ch := rc.Ch
	strat := rc.S.ConfigureStrategy()
	if ch.Chance("workload", 1, 2) {
		rc.S.ForceDense([]int{3, 10, 40}[ch.Int("workload", 3)])
	}
	if ch.Chance("workload", 1, 2) {
		rc.Net.Chunk = func() int { return 1 + ch.Int("net", 150) }
	}
	n := ch.Range("workload", 2, 3)
	domains := []string{"example.net", "other.example", "third.example.org"}
	feats := []xmpp.StreamFeature{xmpp.StartTLS(nil), xmpp.SASL("", "pass", sasl.Plain), xmpp.BindResource()}
	neg := xmpp.NewNegotiator(func(*xmpp.Session, *xmpp.StreamConfig) xmpp.StreamConfig {
		return xmpp.StreamConfig{Features: feats}
	})
	type ov struct {
		dom     string
		sni     string
		sniSeen bool
		done    bool
		err     error
		sess    *xmpp.Session
	}
	var all []*ov
	ctx, cancel := context.WithTimeout(context.Background(), 20*time.Second)
	rc.OnCleanup(cancel)
	perm := ch.Perm("workload", len(domains))
	for i := 0; i < n; i++ {
		o := &ov{dom: domains[perm[i]]}
		all = append(all, o)
		cert, _ := mkcert(o.dom)
		origin := jid.MustParse("me@" + o.dom + "/r")
		cc, sc := rc.Net.Pipe(fmt.Sprintf("cli%d", i), fmt.Sprintf("srv%d", i))
		rc.OnCleanup(func() { cc.Close(); sc.Close() })
		delay := time.Duration(ch.Range("script", 0, 30)) * time.Millisecond
		rc.Spawn(fmt.Sprintf("client%d", i), func() {
			o.sess, o.err = xmpp.NewSession(ctx, origin.Domain(), origin, cc, 0, neg)
			o.done = true
		})
		rc.Spawn(fmt.Sprintf("server%d", i), func() {
			out := cc.Out()
			simrt.WaitUntil("srv:hdr", func() bool {
				return o.done || (bytes.Contains(out.Tap, []byte("<stream:stream")) && bytes.HasSuffix(bytes.TrimSpace(out.Tap), []byte(">")))
			})
			if o.done {
				return
			}
			fmt.Fprintf(sc, `<?xml version='1.0'?><stream:stream xmlns='jabber:client' xmlns:stream='http://etherx.jabber.org/streams' version='1.0' id='clear%d' from='%s'><stream:features><starttls xmlns='urn:ietf:params:xml:ns:xmpp-tls'><required/></starttls></stream:features>`, i, o.dom)
			simrt.WaitUntil("srv:starttls", func() bool { return o.done || bytes.Contains(out.Tap, []byte("<starttls")) })
			if o.done {
				return
			}
			// the answer of one server may take longer than that of another
			simrt.Sleep(delay)
			io.WriteString(sc, `<proceed xmlns='urn:ietf:params:xml:ns:xmpp-tls'/>`)
			clearLen := bytes.Index(out.Tap, []byte("<starttls"))
			clearLen += bytes.Index(out.Tap[clearLen:], []byte("/>")) + 2
			if _, err := io.CopyN(io.Discard, sc, int64(clearLen)); err != nil {
				return
			}
			ts := tls.Server(sc, &tls.Config{Certificates: []tls.Certificate{cert}, MinVersion: tls.VersionTLS12,
				GetConfigForClient: func(h *tls.ClientHelloInfo) (*tls.Config, error) {
					o.sni, o.sniSeen = h.ServerName, true
					return nil, nil
				}})
			ts.Handshake() // the client cannot verify a certificate of the harness: its session ends here
		})
	}
	rc.Describe("overlapping sessions with one StartTLS(nil) value: strategy=%s sessions=%d", strat, n)
	rc.CaseKey = fmt.Sprint("overlap", n)
	rc.Fire("overlapping-sessions")
	rc.S.Run(func() bool {
		for _, o := range all {
			if !o.done {
				return false
			}
		}
		return true
	}, 200000, time.Minute)
	for i, o := range all {
		rc.Describe("session %d domain=%s sni=%q seen=%v err=%v", i, o.dom, o.sni, o.sniSeen, o.err)
		if o.sniSeen {
			rc.Evals["C02.c4"]++
			if o.sni != o.dom {
				rc.Failf("C02.c4", "sni-of-another-session:overlapping", "session %d of %d that are established at the same time with one StartTLS(nil) value, for an account on %s, sent server name %q in its ClientHello", i, n, o.dom, o.sni)
			}
		}
		rc.Evals["C02.c2"]++
		if !o.done {
			rc.Failf("C02.c2", "client-hangs:overlapping", "session %d did not return within its context's deadline; stuck %v", i, rc.S.Stuck())
		} else if o.err == nil && o.sess != nil {
			if st := stateOf(rc, o.sess); st&xmpp.Secure == 0 || !o.sess.ConnectionState().HandshakeComplete {
				rc.Failf("C02.c2", "ready-without-tls:overlapping", "session %d returned nil with state %v on a connection whose TLS handshake never completed", i, st)
			}
		}
	}
	simrt.Settle(cancel, "h:cancel")
	stuck := rc.Teardown()
	rc.CheckPanics("C02.c2")
	rc.Check("C02.c2", "stuck-after-teardown", len(stuck) == 0, "tasks still blocked after teardown: %v", stuck)
}
