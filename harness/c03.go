package harness

import (
	"bytes"
	"context"
	"crypto/hmac"
	"crypto/sha1"
	"crypto/sha256"
	"crypto/tls"
	"encoding/base64"
	"encoding/xml"
	"fmt"
	"hash"
	"io"
	"regexp"
	"strings"
	"time"

	"golang.org/x/crypto/pbkdf2"
	"mellium.im/sasl"
	"mellium.im/xmpp"
	"mellium.im/xmpp/jid"
	"verif.sim/simrt"
	"verif.sim/simrt/simnet"
)

// C03 — the authenticated bit is only set by a completed, accepted SASL exchange.

func init() { register(&Scenario{ID: "C03", Run: runC03}) }

const nsSASL = "urn:ietf:params:xml:ns:xmpp-sasl"

type mechCall struct {
	mech string
	more bool
	err  error
	step int
}

// observe wraps a mechanism so that every Start/Next result is recorded.
func observe(rc *RC, m sasl.Mechanism, log *[]mechCall) sasl.Mechanism {
	start, next := m.Start, m.Next
	o := m
	if start != nil {
		o.Start = func(n *sasl.Negotiator) (bool, []byte, interface{}, error) {
			more, resp, cache, err := start(n)
			*log = append(*log, mechCall{m.Name, more, err, rc.S.Steps})
			return more, resp, cache, err
		}
	}
	o.Next = func(n *sasl.Negotiator, ch []byte, data interface{}) (bool, []byte, interface{}, error) {
		more, resp, cache, err := next(n, ch, data)
		*log = append(*log, mechCall{m.Name, more, err, rc.S.Steps})
		return more, resp, cache, err
	}
	return o
}

// twoStep is a two-round test mechanism for the receiving side: "hello" ->
// challenge "who?" -> "user\x00pass" -> permission callback.
var twoStep = sasl.Mechanism{
	Name: "X-TWOSTEP",
	Start: func(n *sasl.Negotiator) (bool, []byte, interface{}, error) {
		return true, []byte("hello"), nil, nil
	},
	Next: func(n *sasl.Negotiator, challenge []byte, data interface{}) (bool, []byte, interface{}, error) {
		if data == nil {
			if string(challenge) != "hello" {
				return false, nil, nil, sasl.ErrInvalidChallenge
			}
			return true, []byte("who?"), 1, nil
		}
		parts := bytes.Split(challenge, []byte{0})
		if len(parts) != 2 {
			return false, nil, nil, sasl.ErrInvalidChallenge
		}
		if n.Permissions(sasl.Credentials(func() ([]byte, []byte, []byte) { return parts[0], parts[1], nil })) {
			return false, nil, nil, nil
		}
		return false, nil, nil, sasl.ErrAuthn
	},
}

func b64(b []byte) string {
	if len(b) == 0 {
		return "="
	}
	return base64.StdEncoding.EncodeToString(b)
}

func unb64(s string) []byte {
	s = strings.TrimSpace(s)
	if s == "=" || s == "" {
		return nil
	}
	b, err := base64.StdEncoding.DecodeString(s)
	if err != nil {
		return []byte("\x00undecodable")
	}
	return b
}

func runC03(rc *RC) {
	if rc.Ch.Chance("workload", 1, 2) {
		rc.Net.Chunk = func() int { return 1 + rc.Ch.Int("net", 90) }
	}
	switch k := rc.Ch.Int("workload", 10); {
	case k == 9:
		c03ConcurrentReceivers(rc)
	case k == 8:
		c03SharedFeature(rc)
	case k%2 == 0:
		c03Initiator(rc)
	default:
		c03Receiver(rc)
	}
	stuck := rc.Teardown()
	rc.CheckPanics("C03.c4")
	rc.Check("C03.c4", "stuck-after-teardown", len(stuck) == 0, "tasks still blocked after teardown: %v", stuck)
}

// c03SharedFeature: two or three initiating sessions of one process use ONE xmpp.SASL feature value at the same time,
// each against a receiver that offers its own list of mechanisms. c3: the mechanism each initiator names in its <auth/>
// is one that ITS receiver offered (and that it is configured with).
func c03SharedFeature(rc *RC) {
	ch := rc.Ch
	strat := rc.S.ConfigureStrategy()
	names := []string{"PLAIN", "SCRAM-SHA-1", "SCRAM-SHA-256"}
	mechs := map[string]sasl.Mechanism{"PLAIN": sasl.Plain, "SCRAM-SHA-1": sasl.ScramSha1, "SCRAM-SHA-256": sasl.ScramSha256}
	var prefs []sasl.Mechanism
	var prefNames []string
	for _, i := range ch.Perm("workload", len(names)) {
		prefs, prefNames = append(prefs, mechs[names[i]]), append(prefNames, names[i])
	}
	shared := xmpp.SASL("", "pass", prefs...)
	n := ch.Range("workload", 2, 3)
	type sh struct {
		offered []string
		named   string
		done    bool
	}
	var all []*sh
	ctx, cancel := context.WithTimeout(context.Background(), 20*time.Second)
	rc.OnCleanup(cancel)
	for i := 0; i < n; i++ {
		x := &sh{}
		for _, j := range ch.Perm("workload", len(names)) {
			if len(x.offered) == 0 || ch.Chance("workload", 1, 3) {
				x.offered = append(x.offered, names[j])
			}
		}
		all = append(all, x)
		cc, sc := rc.Net.Pipe(fmt.Sprintf("cli%d", i), fmt.Sprintf("srv%d", i))
		rc.OnCleanup(func() { cc.Close(); sc.Close() })
		origin := jid.MustParse(fmt.Sprintf("user%d@example.net", i))
		rc.Spawn(fmt.Sprintf("sut%d", i), func() {
			xmpp.NewSession(ctx, origin.Domain(), origin, cc, xmpp.Secure, xmpp.NewNegotiator(func(*xmpp.Session, *xmpp.StreamConfig) xmpp.StreamConfig {
				return xmpp.StreamConfig{Features: []xmpp.StreamFeature{shared}}
			}))
			x.done = true
		})
		rc.Spawn(fmt.Sprintf("script%d", i), func() {
			out := cc.Out()
			simrt.WaitUntil("script:hdr", func() bool {
				return x.done || (bytes.Contains(out.Tap, []byte("<stream:stream")) && bytes.HasSuffix(out.Tap, []byte(">")))
			})
			var sb strings.Builder
			for _, a := range x.offered {
				sb.WriteString(`<mechanism>` + a + `</mechanism>`)
			}
			// the list may arrive a little later than the header
			fmt.Fprintf(sc, `<?xml version='1.0'?><stream:stream xmlns='jabber:client' xmlns:stream='http://etherx.jabber.org/streams' version='1.0' id='sid%d' from='example.net'>`, i)
			if ch.Chance("script", 1, 2) {
				simrt.Sleep(time.Duration(ch.Range("script", 1, 20)) * time.Millisecond)
			}
			fmt.Fprintf(sc, `<stream:features><mechanisms xmlns='%s'>%s</mechanisms></stream:features>`, nsSASL, sb.String())
			simrt.WaitUntil("script:auth", func() bool {
				return x.done || bytes.Contains(out.Tap, []byte("</auth>")) || bytes.Contains(out.Tap, []byte("/>")) && bytes.Contains(out.Tap, []byte("<auth"))
			})
			if m := regexp.MustCompile(`<auth[^>]*mechanism=["']([^"']*)["']`).FindSubmatch(out.Tap); m != nil {
				x.named = string(m[1])
			}
			fmt.Fprintf(sc, `<failure xmlns='%s'><not-authorized/></failure>`, nsSASL)
		})
	}
	rc.Describe("shared SASL feature value: strategy=%s prefs=%v sessions=%d", strat, prefNames, n)
	rc.CaseKey = fmt.Sprint("shared", prefNames, n)
	rc.S.Run(func() bool {
		for _, x := range all {
			if !x.done {
				return false
			}
		}
		return true
	}, 60000, time.Minute)
	for i, x := range all {
		rc.Describe("session %d offered=%v named=%q", i, x.offered, x.named)
		if x.named == "" {
			continue
		}
		rc.Evals["C03.c3"]++
		ok := false
		for _, o := range x.offered {
			ok = ok || o == x.named
		}
		rc.Check("C03.c3", "unoffered-mechanism-used:shared-feature", ok, "session %d of %d sharing one SASL feature value sent <auth mechanism=%q/> to a receiver that offered %v", i, n, x.named, x.offered)
	}
}

func c03Initiator(rc *RC) {
	ch := rc.Ch
	all := []sasl.Mechanism{sasl.Plain, sasl.ScramSha1, sasl.ScramSha256, sasl.ScramSha1Plus, sasl.ScramSha256Plus}
	// channel binding: 0 the transport reports no TLS state, 1 both ends see the same tls-unique value,
	// 2 the server sees another one (somebody sits in between)
	tlsMode := ch.Int("workload", 3)
	var prefs []sasl.Mechanism
	var mlog []mechCall
	for _, i := range ch.Perm("workload", len(all)) {
		if len(prefs) == 0 || ch.Chance("workload", 1, 2) {
			prefs = append(prefs, observe(rc, all[i], &mlog))
		}
	}
	// what the scripted server advertises
	names := []string{"PLAIN", "SCRAM-SHA-1", "SCRAM-SHA-256", "SCRAM-SHA-1-PLUS", "SCRAM-SHA-256-PLUS", "X-UNKNOWN", "SCRAM-SHA-512"}
	var adv []string
	for _, n := range names {
		if ch.Chance("script", 1, 2) {
			adv = append(adv, n)
		}
	}
	muts := []string{"none", "none", "none", "premature-success-empty", "premature-success-payload", "final-in-challenge", "failure", "foreign-ns", "bad-base64", "wrong-signature", "equals", "empty-challenge", "challenge-after-done", "failure-malformed", "failure-odd-content",
		// the verdict is due and the receiver closes its stream instead; the receiver turns the chosen mechanism down as
		// invalid and then serves whatever the initiator tries next
		"close-instead-of-verdict", "reject-as-invalid-mechanism"}
	plan := make([]string, 6)
	for i := range plan {
		plan[i] = muts[ch.Int("script", len(muts))]
	}
	afterFinal := ch.Int("script", 6) // reply to the response that follows a final-in-challenge: 0 failure, 1 success, 2 silence, 3 an empty challenge, 4 a challenge with data, 5 the closing stream tag
	var prefNames []string
	for _, p := range prefs {
		prefNames = append(prefNames, p.Name)
	}
	rc.Describe("initiator tls=%d prefs=%v advertised=%v plan=%v afterFinal=%d", tlsMode, prefNames, adv, plan, afterFinal)
	rc.CaseKey = fmt.Sprint("init", prefNames, adv, plan[:3])
	cc, sc := rc.Net.Pipe("cli", "srv")
	ctx, cancel := context.WithTimeout(context.Background(), 20*time.Second)
	rc.OnCleanup(func() { cancel(); cc.Close(); sc.Close() })
	origin := jid.MustParse("user@example.net")
	var steps []featStep
	var sess *xmpp.Session
	var err error
	done := false
	// in a quarter of the runs the initiator's context ends in the middle of the exchange: when the k-th challenge (or
	// the verdict) is on its way, or after drawn steps; half of those on a transport without deadlines
	initPlain := false
	if ch.Chance("faults", 1, 4) {
		initPlain = tlsMode == 0 && ch.Chance("faults", 1, 2)
		mode, k, after := ch.Int("faults", 2), 1+ch.Int("faults", 2), ch.Range("faults", 1, 300)
		for i, m := range plan {
			// biased to the instant at which the mechanism is complete on the client's side and the verdict is still out
			if m == "final-in-challenge" && ch.Chance("faults", 3, 4) {
				mode, k = 0, i+1
				break
			}
		}
		t := rc.Spawn("canceller", func() {
			start := rc.S.Steps
			simrt.WaitUntil("cancel", func() bool {
				if done {
					return true
				}
				if mode == 0 {
					tp := sc.Out().Tap
					return bytes.Count(tp, []byte("<challenge"))+bytes.Count(tp, []byte("<success"))+bytes.Count(tp, []byte("<failure")) >= k
				}
				return rc.S.Steps-start >= after
			})
			if !done {
				rc.Fire("cancel")
				simrt.Settle(cancel, "h:cancel")
			}
		})
		t.Daemon = true
	}
	rc.Spawn("sut", func() {
		f := wrapFeature(rc, xmpp.SASL("", "pass", prefs...), &steps)
		var rw io.ReadWriter = cc
		if tlsMode != 0 {
			rw = tlsStateConn{cc, tls.ConnectionState{Version: tls.VersionTLS12, HandshakeComplete: true, TLSUnique: []byte("unique-of-this-channel")}}
		} else if initPlain {
			rw = plainRW{&trackConn{Conn: cc}}
		}
		sess, err = xmpp.NewSession(ctx, origin.Domain(), origin, rw, xmpp.Secure, xmpp.NewNegotiator(func(*xmpp.Session, *xmpp.StreamConfig) xmpp.StreamConfig {
			return xmpp.StreamConfig{Features: []xmpp.StreamFeature{f}}
		}))
		done = true
	})
	_ = err
	successAt := -1 // scheduler step at which a genuine <success/> was written
	var wireMech string
	var wireMechs []string
	var sent []string
	hashOf := map[string]func() hash.Hash{"SCRAM-SHA-1": sha1.New, "SCRAM-SHA-256": sha256.New, "SCRAM-SHA-1-PLUS": sha1.New, "SCRAM-SHA-256-PLUS": sha256.New}
	bindingOK := true // false once the server ran a -PLUS mechanism against a channel the client is not on
	rc.Spawn("script", func() {
		d := xml.NewDecoder(sc)
		var srv *sasl.Negotiator
		var srvStep func([]byte) (bool, []byte, error)
		replies := 0
		pendingFinal := false
		finished := false
		hdr := func(features string) {
			fmt.Fprintf(sc, `<?xml version='1.0'?><stream:stream xmlns='jabber:client' xmlns:stream='http://etherx.jabber.org/streams' version='1.0' id='sid' from='example.net'>%s`, features)
		}
		for n := 0; n < 40; n++ {
			tok, e := d.Token()
			if e != nil {
				return
			}
			st, ok := tok.(xml.StartElement)
			if !ok {
				continue
			}
			if st.Name.Local == "stream" {
				if successAt >= 0 || finished {
					hdr(`<stream:features/>`)
					d = xml.NewDecoder(sc)
					continue
				}
				var sb strings.Builder
				sb.WriteString(`<stream:features><mechanisms xmlns='` + nsSASL + `'>`)
				for _, a := range adv {
					sb.WriteString(`<mechanism>` + a + `</mechanism>`)
				}
				sb.WriteString(`</mechanisms></stream:features>`)
				hdr(sb.String())
				continue
			}
			if st.Name.Space != nsSASL {
				d.Skip()
				continue
			}
			var body struct {
				Data string `xml:",chardata"`
			}
			if e := d.DecodeElement(&body, &st); e != nil {
				return
			}
			payload := unb64(body.Data)
			var more bool
			var resp []byte
			var serr error
			switch st.Name.Local {
			case "auth":
				for _, a := range st.Attr {
					if a.Name.Local == "mechanism" {
						wireMech = a.Value
						wireMechs = append(wireMechs, a.Value)
					}
				}
				var m sasl.Mechanism
				switch wireMech {
				case "PLAIN":
					m = sasl.Plain
				case "SCRAM-SHA-1":
					m = sasl.ScramSha1
				case "SCRAM-SHA-256":
					m = sasl.ScramSha256
				case "SCRAM-SHA-1-PLUS":
					m = sasl.ScramSha1Plus
				case "SCRAM-SHA-256-PLUS":
					m = sasl.ScramSha256Plus
				default:
					fmt.Fprintf(sc, `<failure xmlns='%s'><invalid-mechanism/></failure>`, nsSASL)
					sent = append(sent, "failure(invalid-mechanism)")
					continue
				}
				h := hashOf[wireMech]
				srvTLS := tls.ConnectionState{Version: tls.VersionTLS12, HandshakeComplete: true, TLSUnique: []byte("unique-of-this-channel")}
				if tlsMode == 2 {
					srvTLS.TLSUnique = []byte("unique-of-another-channel")
					if strings.HasSuffix(wireMech, "-PLUS") {
						bindingOK = false
					}
				}
				if strings.HasSuffix(wireMech, "-PLUS") {
					// mellium.im/sasl has no server side for the -PLUS mechanisms: a minimal RFC 5802 server with tls-unique binding
					srv, srvStep = &sasl.Negotiator{}, scramPlusServer(h, srvTLS.TLSUnique, "pass")
					break
				}
				srvStep = nil
				srv = sasl.NewServer(m, func(*sasl.Negotiator) bool { return true }, sasl.TLSState(srvTLS), sasl.SaltedCredentials(func(user, ident []byte, mech string) ([]byte, []byte, int64, error) {
					salt := []byte("salt-" + string(user))
					return salt, pbkdf2.Key([]byte("pass"), salt, 16, h().Size(), h), 16, nil
				}))
			case "response":
				if pendingFinal {
					pendingFinal = false
					switch afterFinal {
					case 0:
						fmt.Fprintf(sc, `<failure xmlns='%s'><not-authorized/></failure>`, nsSASL)
						sent = append(sent, "failure(after final-in-challenge)")
					case 1:
						fmt.Fprintf(sc, `<success xmlns='%s'/>`, nsSASL)
						successAt = rc.S.Steps
						sent = append(sent, "success(after final-in-challenge)")
					case 3, 4:
						// yet another challenge is not the receiver's verdict
						data := ""
						if afterFinal == 4 {
							data = b64([]byte("more?"))
						}
						fmt.Fprintf(sc, `<challenge xmlns='%s'>%s</challenge>`, nsSASL, data)
						sent = append(sent, "challenge(after final-in-challenge)")
					case 5:
						io.WriteString(sc, `</stream:stream>`)
						sent = append(sent, "stream-closed(after final-in-challenge)")
					default:
						sent = append(sent, "silence(after final-in-challenge)")
					}
					finished = true
					continue
				}
			default:
				continue
			}
			if srv == nil || finished {
				fmt.Fprintf(sc, `<failure xmlns='%s'><malformed-request/></failure>`, nsSASL)
				sent = append(sent, "failure(malformed)")
				continue
			}
			func() {
				defer func() {
					if r := recover(); r != nil {
						serr = fmt.Errorf("server negotiator: %v", r)
					}
				}()
				if srvStep != nil {
					more, resp, serr = srvStep(payload)
					return
				}
				more, resp, serr = srv.Step(payload)
			}()
			mut := "none"
			if replies < len(plan) {
				mut = plan[replies]
			}
			replies++
			el, data := "", b64(resp)
			if len(resp) == 0 {
				data = "" // no additional data (a lone "=" is a separate mutation)
			}
			switch {
			case serr != nil:
				el = "failure"
			case more:
				el = "challenge"
			default:
				el = "success"
			}
			ns := nsSASL
			if mut == "close-instead-of-verdict" && el == "success" {
				io.WriteString(sc, `</stream:stream>`)
				sent = append(sent, "stream-closed[close-instead-of-verdict]")
				finished = true
				continue
			}
			if mut == "reject-as-invalid-mechanism" && st.Name.Local == "auth" {
				fmt.Fprintf(sc, `<failure xmlns='%s'><invalid-mechanism/></failure>`, nsSASL)
				sent = append(sent, "failure(invalid-mechanism)[reject-as-invalid-mechanism]")
				srv, srvStep = nil, nil
				continue
			}
			switch mut {
			case "premature-success-empty":
				if el == "challenge" {
					el, data = "success", ""
				}
			case "premature-success-payload":
				if el == "challenge" {
					el = "success"
				}
			case "final-in-challenge":
				if el == "success" {
					el, pendingFinal = "challenge", true
				}
			case "failure", "failure-malformed", "failure-odd-content":
				el = "failure"
			case "foreign-ns":
				ns = "urn:other"
			case "bad-base64":
				data = "!!!not*base64"
			case "wrong-signature":
				if len(resp) > 2 {
					r2 := append([]byte(nil), resp...)
					r2[len(r2)-2] ^= 0x55
					data = b64(r2)
				}
			case "equals":
				data = "="
			case "empty-challenge":
				data = ""
			}
			if el == "failure" {
				switch mut {
				case "failure-malformed":
					// content that is not well-formed: whatever the decoder makes of it, it is not a success
					fmt.Fprintf(sc, `<failure xmlns='%s'><not-authorized></failure>`, ns)
				case "failure-odd-content":
					fmt.Fprintf(sc, `<failure xmlns='%s'>text<unknown-condition xmlns='urn:x'><deep/></unknown-condition><text xml:lang='en'>a</text><text>b</text></failure>`, ns)
				default:
					fmt.Fprintf(sc, `<failure xmlns='%s'><not-authorized/></failure>`, ns)
				}
				finished = true
			} else {
				fmt.Fprintf(sc, `<%s xmlns='%s'>%s</%s>`, el, ns, data, el)
				if el == "success" && ns == nsSASL {
					successAt = rc.S.Steps
					finished = true
				}
			}
			sent = append(sent, fmt.Sprintf("%s[%s]", el, mut))
			if mut == "challenge-after-done" && el == "success" {
				fmt.Fprintf(sc, `<challenge xmlns='%s'>%s</challenge>`, nsSASL, b64([]byte("more?")))
			}
		}
	})
	rc.S.Run(func() bool { return done }, 60000, time.Minute)
	rc.Describe("server sent %v; client mech %q", sent, wireMech)
	// ---- oracle ----
	granted := false
	var gstep featStep
	for _, s := range steps {
		if s.NS == nsSASL && s.Err == nil && s.Mask&xmpp.Authn != 0 {
			granted, gstep = true, s
		}
	}
	finalAuthn := done && sess != nil && stateOf(rc, sess)&xmpp.Authn != 0
	rc.Evals["C03.c4"]++
	if finalAuthn && !granted {
		rc.Failf("C03.c4", "authn-without-sasl-step", "the session is authenticated but no SASL step returned the Authn mask (steps %+v)", steps)
	}
	if granted {
		rc.Evals["C03.c1"]++
		// the selected mechanism ran to completion without error
		var last *mechCall
		for i := range mlog {
			if mlog[i].mech == wireMech && mlog[i].step <= gstep.Step {
				last = &mlog[i]
			}
		}
		if last == nil || last.more || last.err != nil {
			rc.Failf("C03.c1", "authn-mechanism-incomplete:"+wireMech, "initiator marked authenticated but mechanism %s had not completed (last step %+v); server sent %v", wireMech, last, sent)
		}
		// the receiver had signalled success before Negotiate returned
		if successAt < 0 || successAt > gstep.Step {
			rc.Failf("C03.c1", "authn-without-success:"+wireMech, "initiator marked authenticated (SASL step returned at scheduler step %d) but the server had not sent <success/> by then (success at %d); server sent %v", gstep.Step, successAt, sent)
		}
	}
	if strings.HasSuffix(wireMech, "-PLUS") {
		rc.S.Probes[fmt.Sprintf("plus-attempt:tls=%d:authn=%v", tlsMode, granted)]++
	}
	if granted && strings.HasSuffix(wireMech, "-PLUS") {
		// a completed channel-binding mechanism presupposes a channel: never without TLS state, and a genuine
		// success only from a server on the same channel
		rc.Check("C03.c1", "plus-without-tls-state", tlsMode != 0, "initiator authenticated with %s although its transport reports no TLS state", wireMech)
		rc.Check("C03.c1", "plus-binding-mismatch-accepted", bindingOK || successAt < 0 || successAt > gstep.Step, "initiator authenticated with %s although the server verified against another channel's tls-unique; server sent %v", wireMech, sent)
	}
	for _, wireMech := range wireMechs {
		rc.Evals["C03.c3"]++
		inAdv, inCfg := false, false
		for _, a := range adv {
			inAdv = inAdv || a == wireMech
		}
		for _, p := range prefNames {
			inCfg = inCfg || p == wireMech
		}
		rc.Check("C03.c3", "mechanism-not-offered-by-both", inAdv && inCfg, "client used mechanism %q; advertised %v, configured %v", wireMech, adv, prefNames)
	}
}

func c03Receiver(rc *RC) {
	ch := rc.Ch
	var mlog []mechCall
	offered := []sasl.Mechanism{observe(rc, sasl.Plain, &mlog)}
	if ch.Chance("workload", 2, 3) {
		offered = append(offered, observe(rc, twoStep, &mlog))
	}
	if ch.Chance("workload", 1, 2) {
		// a mechanism of the application's own, named like a channel-binding variant (it works like PLAIN)
		plus := sasl.Plain
		plus.Name = "X-VERIF-PLUS"
		offered = append(offered, observe(rc, plus, &mlog))
	}
	type permCall struct {
		user, pass string
		verdict    bool
		step       int
	}
	var perms []permCall
	perm := func(n *sasl.Negotiator) bool {
		u, p, _ := n.Credentials()
		v := ch.Chance("perm", 1, 2)
		perms = append(perms, permCall{string(u), string(p), v, rc.S.Steps})
		return v
	}
	cc, sc := rc.Net.Pipe("cli", "srv")
	ctx, cancel := context.WithTimeout(context.Background(), 20*time.Second)
	rc.OnCleanup(func() { cancel(); cc.Close(); sc.Close() })
	var steps []featStep
	var sess *xmpp.Session
	done := false
	// a quarter of the runs end the receiver's context in the middle of the exchange (right after the features list or a
	// challenge went out, or after a drawn number of steps), half of those on a transport without deadlines, where
	// nothing but the negotiation code itself notices the cancellation
	var srw io.ReadWriter = sc
	cancelMode := 0
	if ch.Chance("faults", 1, 4) {
		cancelMode = 1 + ch.Int("faults", 3)
		if ch.Chance("faults", 1, 2) {
			srw = plainRW{&trackConn{Conn: sc}}
		}
		cancelSteps := ch.Range("faults", 1, 400)
		t := rc.Spawn("canceller", func() {
			start := rc.S.Steps
			switch cancelMode {
			case 1:
				simrt.WaitUntil("cancel:features", func() bool { return done || bytes.Contains(sc.Out().Tap, []byte("</stream:features>")) })
			case 2:
				simrt.WaitUntil("cancel:challenge", func() bool { return done || bytes.Contains(sc.Out().Tap, []byte("</challenge>")) })
			case 3:
				simrt.WaitUntil("cancel:steps", func() bool { return done || rc.S.Steps-start >= cancelSteps })
			}
			if !done {
				rc.Fire("cancel")
				simrt.Settle(cancel, "h:cancel")
			}
		})
		t.Daemon = true
	}
	rc.Spawn("sut", func() {
		f := wrapFeature(rc, xmpp.SASLServer(perm, offered...), &steps)
		sess, _ = xmpp.ReceiveSession(ctx, srw, xmpp.Secure, xmpp.NewNegotiator(func(*xmpp.Session, *xmpp.StreamConfig) xmpp.StreamConfig {
			return xmpp.StreamConfig{Features: []xmpp.StreamFeature{f, xmpp.BindResource()}}
		}))
		done = true
	})
	// scripted client program
	acts := []string{"auth-twostep-restarts", "auth-unknown-plain-payload", "auth-unknown-twostep-payload", "auth-plain-good", "auth-plain-good", "auth-plain-3parts-bad", "auth-plain-malformed", "auth-plain-eq", "auth-plain-empty", "auth-plain-badb64", "auth-plain-good-then-garbage", "auth-twostep-garbage-tail", "auth-twostep", "auth-unoffered", "auth-unknown", "response-first", "abort", "foreign", "auth-nomech", "auth-plus-named"}
	var prog []string
	for i, n := 0, ch.Range("script", 1, 4); i < n; i++ {
		prog = append(prog, acts[ch.Int("script", len(acts))])
	}
	twoPayload := []string{"user\x00pass", "user", "a\x00b\x00c", ""}[ch.Int("script", 4)]
	rc.Describe("receiver offered=%d prog=%v twoPayload=%q", len(offered), prog, twoPayload)
	rc.CaseKey = fmt.Sprint("recv", len(offered), prog)
	out := sc.Out()
	var sentLog []string
	lastAuthMech := "?"
	undecodable := false // the payload of the last <auth/> or <response/> was not valid base64
	rc.Spawn("script", func() {
		io.WriteString(cc, `<?xml version='1.0'?><stream:stream xmlns='jabber:client' xmlns:stream='http://etherx.jabber.org/streams' version='1.0' to='example.net'>`)
		simrt.WaitUntil("script:features", func() bool { return done || bytes.Contains(out.Tap, []byte("</stream:features>")) })
		for _, a := range prog {
			if done {
				return
			}
			before := len(out.Tap)
			send := func(s string) { sentLog = append(sentLog, s); io.WriteString(cc, s) }
			undecodable = false
			auth := func(mech, payload string) {
				lastAuthMech = mech
				send(fmt.Sprintf(`<auth xmlns='%s' mechanism='%s'>%s</auth>`, nsSASL, mech, payload))
			}
			switch a {
			case "auth-plain-good":
				auth("PLAIN", b64([]byte("\x00user\x00pass")))
			case "auth-plain-3parts-bad":
				auth("PLAIN", b64([]byte("admin\x00user\x00wrong")))
			case "auth-plain-malformed":
				auth("PLAIN", b64([]byte("userpass")))
			case "auth-plain-eq":
				auth("PLAIN", "=")
			case "auth-plain-empty":
				auth("PLAIN", "")
			case "auth-plain-badb64":
				auth("PLAIN", "!!!*")
			case "auth-plain-good-then-garbage":
				// decodable up to the first illegal character: the payload as a whole is not base64
				undecodable = true
				auth("PLAIN", base64.StdEncoding.EncodeToString([]byte("\x00user\x00pass12"))+[]string{"!!!!", "*", "=A=="}[ch.Int("script", 3)])
			case "auth-twostep-garbage-tail":
				auth("X-TWOSTEP", b64([]byte("hello")))
				simrt.WaitUntil("script:challenge3", func() bool { return done || len(out.Tap) > before })
				if bytes.Contains(out.Tap[before:], []byte("<challenge")) {
					before = len(out.Tap)
					undecodable = true
					send(fmt.Sprintf(`<response xmlns='%s'>%s</response>`, nsSASL, base64.StdEncoding.EncodeToString([]byte("usr\x00pw"))+"!!!!"))
				} else {
					continue
				}
			case "auth-twostep":
				auth("X-TWOSTEP", b64([]byte("hello")))
				simrt.WaitUntil("script:challenge", func() bool { return done || len(out.Tap) > before })
				if bytes.Contains(out.Tap[before:], []byte("<challenge")) {
					before = len(out.Tap)
					send(fmt.Sprintf(`<response xmlns='%s'>%s</response>`, nsSASL, b64([]byte(twoPayload))))
				} else {
					continue
				}
			case "auth-twostep-restarts":
				// the exchange is started over and over (each <auth/> is answered with a challenge) and never completed
				n := ch.Range("script", 2, 40)
				for i := 0; i < n && !done; i++ {
					before = len(out.Tap)
					auth("X-TWOSTEP", b64([]byte("hello")))
					simrt.WaitUntil("script:challenge4", func() bool { return done || len(out.Tap) > before })
					if !bytes.Contains(out.Tap[before:], []byte("<challenge")) {
						break
					}
				}
				rc.Fire("auth-restarts")
				if bytes.Contains(out.Tap[before:], []byte("<success")) {
					return
				}
				continue
			case "auth-unoffered":
				auth("SCRAM-SHA-1", b64([]byte("n,,n=user,r=abc")))
			case "auth-plus-named":
				// whether or not the receiver is configured with it (and whether or not its list names it)
				auth("X-VERIF-PLUS", b64([]byte("\x00user\x00pass")))
			case "auth-unknown":
				auth("X-NOPE", "=")
			case "auth-unknown-plain-payload":
				auth([]string{"X-OAUTH2", "plain", "ANONYMOUS", "SCRAM-SHA-1"}[ch.Int("script", 4)], b64([]byte("\x00user\x00pass")))
			case "auth-unknown-twostep-payload":
				auth("X-NOPE", b64([]byte("hello")))
				simrt.WaitUntil("script:challenge2", func() bool { return done || len(out.Tap) > before })
				if bytes.Contains(out.Tap[before:], []byte("<challenge")) {
					before = len(out.Tap)
					send(fmt.Sprintf(`<response xmlns='%s'>%s</response>`, nsSASL, b64([]byte("user\x00pass"))))
				} else {
					continue
				}
			case "auth-nomech":
				lastAuthMech = ""
				send(fmt.Sprintf(`<auth xmlns='%s'>%s</auth>`, nsSASL, b64([]byte("\x00user\x00pass"))))
			case "response-first":
				send(fmt.Sprintf(`<response xmlns='%s'>%s</response>`, nsSASL, b64([]byte("\x00user\x00pass"))))
			case "abort":
				send(fmt.Sprintf(`<abort xmlns='%s'/>`, nsSASL))
			case "foreign":
				send(`<auth xmlns='urn:other' mechanism='PLAIN'>` + b64([]byte("\x00user\x00pass")) + `</auth>`)
			}
			simrt.WaitUntil("script:reply", func() bool { return done || len(out.Tap) > before })
			if bytes.Contains(out.Tap[before:], []byte("<success")) {
				return
			}
		}
	})
	rc.S.Run(func() bool {
		if done {
			return true
		}
		for _, s := range steps {
			if s.NS == nsSASL {
				return true
			}
		}
		return false
	}, 60000, time.Minute)
	// let the SASL step's consequences settle (the receiver restarts the stream and waits)
	rc.S.Run(func() bool { return done }, 4000, 2*time.Second)
	rc.Describe("client sent %v", sentLog)
	granted := false
	var gstep featStep
	for _, s := range steps {
		if s.NS == nsSASL && s.Err == nil && s.Mask&xmpp.Authn != 0 {
			granted, gstep = true, s
		}
	}
	rc.Evals["C03.c4"]++
	if done && sess != nil && stateOf(rc, sess)&xmpp.Authn != 0 && !granted {
		rc.Failf("C03.c4", "authn-without-sasl-step:receiver", "the session is authenticated but no SASL step returned the Authn mask")
	}
	if bytes.Contains(out.Tap, []byte("<success")) && !granted {
		rc.Failf("C03.c2", "success-sent-without-authn", "receiver wrote <success/> but its SASL step did not return the Authn mask (steps %+v)", steps)
	}
	if granted && undecodable {
		rc.Failf("C03.c2", "authn-on-undecodable-payload", "receiver marked the session authenticated although the last payload it was sent is not valid base64; client sent %v", sentLog)
	}
	if i := bytes.Index(out.Tap, []byte("<failure")); i >= 0 && bytes.Contains(out.Tap[i:], []byte("<success")) {
		rc.Failf("C03.c2", "success-after-failure", "receiver wrote <failure/> and then <success/> in one exchange; client sent %v", sentLog)
	}
	if granted {
		rc.Evals["C03.c2"]++
		var last *mechCall
		for i := range mlog {
			if mlog[i].step <= gstep.Step {
				last = &mlog[i]
			}
		}
		if last == nil || last.more || last.err != nil {
			rc.Failf("C03.c2", "authn-mechanism-incomplete:receiver", "receiver marked the session authenticated but its mechanism had not completed without error (last mechanism step %+v; client sent %v)", last, sentLog)
		}
		if len(perms) == 0 || !perms[len(perms)-1].verdict {
			rc.Failf("C03.c2", "authn-without-permission", "receiver marked the session authenticated but the permission callback did not accept these credentials (calls %+v; client sent %v)", perms, sentLog)
		}
		// c3: the mechanism used was offered
		if last != nil {
			okm := false
			for _, m := range offered {
				okm = okm || m.Name == last.mech
			}
			rc.Check("C03.c3", "unoffered-mechanism-used", okm, "receiver authenticated with mechanism %q which it did not offer", last.mech)
		}
		// … and it is the mechanism the peer named in its <auth/>
		named := false
		for _, m := range offered {
			named = named || m.Name == lastAuthMech
		}
		// offered means: named in the <mechanisms/> list the peer was sent
		if lastAuthMech != "?" {
			advertisedOnWire := false
			for _, m := range regexp.MustCompile(`<mechanism>([^<]*)</mechanism>`).FindAllSubmatch(out.Tap, -1) {
				advertisedOnWire = advertisedOnWire || string(m[1]) == lastAuthMech
			}
			rc.Check("C03.c3", "authn-under-unadvertised-mechanism", advertisedOnWire, "receiver authenticated an exchange that the peer started with <auth mechanism=%q/>; the <mechanisms/> list it had sent does not name that mechanism: %s", lastAuthMech, clip(string(out.Tap), 500))
		}
		rc.Check("C03.c3", "authn-under-unoffered-mechanism-name", named, "receiver authenticated an exchange that the peer started with <auth mechanism=%q/>, which was not offered (offered %d mechanisms); client sent %v", lastAuthMech, len(offered), sentLog)
	}
}

// tlsStateConn is a transport that reports a TLS connection state (what the
// session hands to channel-binding mechanisms) without running TLS.
type tlsStateConn struct {
	*simnet.Conn
	cs tls.ConnectionState
}

func (c tlsStateConn) ConnectionState() tls.ConnectionState { return c.cs }

// scramPlusServer is the receiving side of SCRAM-*-PLUS with tls-unique channel
// binding (RFC 5802 / RFC 5929), as far as the initiator under test needs it:
// it verifies the binding data and the client proof and signs its final message.
func scramPlusServer(h func() hash.Hash, tlsUnique []byte, password string) func([]byte) (bool, []byte, error) {
	step := 0
	var gs2, bare, first, salted []byte
	var nonce string
	mac := func(key, msg []byte) []byte {
		m := hmac.New(h, key)
		m.Write(msg)
		return m.Sum(nil)
	}
	return func(in []byte) (bool, []byte, error) {
		step++
		switch step {
		case 1:
			// p=tls-unique,[a=authzid],n=user,r=nonce
			parts := bytes.SplitN(in, []byte(","), 3)
			if len(parts) != 3 || string(parts[0]) != "p=tls-unique" {
				return false, nil, fmt.Errorf("client-first without tls-unique binding: %q", in)
			}
			gs2 = append(append(append([]byte(nil), parts[0]...), ','), append(parts[1], ',')...)
			bare = parts[2]
			var user string
			for _, f := range bytes.Split(bare, []byte(",")) {
				if bytes.HasPrefix(f, []byte("r=")) {
					nonce = string(f[2:])
				}
				if bytes.HasPrefix(f, []byte("n=")) {
					user = string(f[2:])
				}
			}
			if nonce == "" || user == "" {
				return false, nil, fmt.Errorf("client-first incomplete: %q", in)
			}
			salt := []byte("salt-" + user)
			salted = pbkdf2.Key([]byte(password), salt, 16, h().Size(), h)
			nonce += "srvnonce"
			first = []byte("r=" + nonce + ",s=" + base64.StdEncoding.EncodeToString(salt) + ",i=16")
			return true, first, nil
		case 2:
			// c=base64(gs2 header + binding data),r=nonce,p=proof
			i := bytes.LastIndex(in, []byte(",p="))
			if i < 0 {
				return false, nil, fmt.Errorf("client-final without proof: %q", in)
			}
			woProof := in[:i]
			proof, err := base64.StdEncoding.DecodeString(string(in[i+3:]))
			if err != nil {
				return false, nil, err
			}
			want := "c=" + base64.StdEncoding.EncodeToString(append(append([]byte(nil), gs2...), tlsUnique...)) + ",r=" + nonce
			if string(woProof) != want {
				return false, nil, fmt.Errorf("channel binding or nonce mismatch: %q want %q", woProof, want)
			}
			authMsg := bytes.Join([][]byte{bare, first, woProof}, []byte(","))
			clientKey := mac(salted, []byte("Client Key"))
			hh := h()
			hh.Write(clientKey)
			storedKey := hh.Sum(nil)
			sig := mac(storedKey, authMsg)
			if len(proof) != len(sig) {
				return false, nil, fmt.Errorf("proof length")
			}
			ck := make([]byte, len(sig))
			for k := range sig {
				ck[k] = proof[k] ^ sig[k]
			}
			hh = h()
			hh.Write(ck)
			if !bytes.Equal(hh.Sum(nil), storedKey) {
				return false, nil, fmt.Errorf("client proof does not verify")
			}
			v := mac(mac(salted, []byte("Server Key")), authMsg)
			return false, []byte("v=" + base64.StdEncoding.EncodeToString(v)), nil
		}
		return false, nil, fmt.Errorf("exchange already finished")
	}
}
