package harness

import (
	"bytes"
	"context"
	"fmt"
	"sort"
	"time"

	"mellium.im/sasl"
	"mellium.im/xmpp"
	"mellium.im/xmpp/jid"
	"verif.sim/simrt"
)

// c03ConcurrentReceivers: a server authenticates 2-5 connections at the same time with ONE SASLServer feature value
// (what every server does). Every client presents PLAIN credentials of its own - same lengths, so that nothing but their
// content tells them apart; some passwords are wrong. The application's permission callback decides by the credentials
// it is shown. c1/c2: a connection whose peer presented credentials the application turns down is never answered
// <success/>; c4: the callback is shown each presented credential pair exactly as presented (never a mixture, never
// another connection's in its place).
func c03ConcurrentReceivers(rc *RC) {
	ch := rc.Ch
	strat := rc.S.ConfigureStrategy()
	den := []int{2, 4, 10, 40}[ch.Int("workload", 4)]
	rc.S.ForceDense(den)
	n := ch.Range("workload", 2, 5)
	type cr struct {
		user, pass string
		good       bool
		done       bool
		verdict    string // what its wire shows: success, failure, ""
	}
	var all []*cr
	var shown []string
	slow := ch.Chance("workload", 1, 2)
	perm := func(neg *sasl.Negotiator) bool {
		if slow && ch.Chance("perm", 1, 2) {
			simrt.Sleep(time.Duration(ch.Range("perm", 1, 30)) * time.Millisecond) // a lookup in the application
		}
		u, p, _ := neg.Credentials()
		shown = append(shown, string(u)+"|"+string(p))
		return bytes.HasSuffix(p, []byte("-good"))
	}
	shared := xmpp.SASLServer(perm, sasl.Plain)
	neg := xmpp.NewNegotiator(func(*xmpp.Session, *xmpp.StreamConfig) xmpp.StreamConfig {
		return xmpp.StreamConfig{Features: []xmpp.StreamFeature{shared, xmpp.BindResource()}}
	})
	ctx, cancel := context.WithTimeout(context.Background(), 20*time.Second)
	rc.OnCleanup(cancel)
	var presented []string
	for i := 0; i < n; i++ {
		x := &cr{user: fmt.Sprintf("user%d", i), good: ch.Chance("workload", 1, 2)}
		x.pass = fmt.Sprintf("pw%d-good", i)
		if !x.good {
			x.pass = fmt.Sprintf("pw%d-evil", i)
		}
		presented = append(presented, x.user+"|"+x.pass)
		all = append(all, x)
		cc, sc := rc.Net.Pipe(fmt.Sprintf("cli%d", i), fmt.Sprintf("srv%d", i))
		rc.OnCleanup(func() { cc.Close(); sc.Close() })
		rc.Spawn(fmt.Sprintf("sut%d", i), func() {
			xmpp.ReceiveSession(ctx, sc, xmpp.Secure, neg)
			x.done = true
		})
		rc.Spawn(fmt.Sprintf("script%d", i), func() {
			out := sc.Out()
			fmt.Fprintf(cc, `<?xml version='1.0'?><stream:stream xmlns='jabber:client' xmlns:stream='http://etherx.jabber.org/streams' version='1.0' to='example.net' from='%s'>`, jid.MustParse(x.user+"@example.net"))
			simrt.WaitUntil("script:features", func() bool { return x.done || bytes.Contains(out.Tap, []byte("</stream:features>")) })
			if x.done {
				return
			}
			if ch.Chance("script", 1, 2) {
				simrt.Sleep(time.Duration(ch.Range("script", 0, 20)) * time.Millisecond)
			}
			fmt.Fprintf(cc, `<auth xmlns='%s' mechanism='PLAIN'>%s</auth>`, nsSASL, b64([]byte("\x00"+x.user+"\x00"+x.pass)))
			simrt.WaitUntil("script:verdict", func() bool {
				return x.done || bytes.Contains(out.Tap, []byte("<success")) || bytes.Contains(out.Tap, []byte("</failure>")) || bytes.Contains(out.Tap, []byte("<failure"))
			})
			switch {
			case bytes.Contains(out.Tap, []byte("<success")):
				x.verdict = "success"
			case bytes.Contains(out.Tap, []byte("<failure")):
				x.verdict = "failure"
			}
		})
	}
	rc.Describe("concurrent receivers: strategy=%s dense=1/%d sessions=%d slow-callback=%v", strat, den, n, slow)
	rc.CaseKey = fmt.Sprint("concrecv", n, slow)
	rc.Fire("concurrent-receivers")
	rc.S.Run(func() bool {
		for _, x := range all {
			if x.verdict == "" && !x.done {
				return false
			}
		}
		return true
	}, 200000, time.Minute)
	for i, x := range all {
		rc.Describe("session %d user=%s good=%v verdict=%q", i, x.user, x.good, x.verdict)
		rc.Evals["C03.c2"]++
		if !x.good && x.verdict == "success" {
			rc.Failf("C03.c2", "success-for-refused-credentials:concurrent-receivers", "connection %d of %d that authenticate at the same time presented %s / %s, which the application's permission callback turns down, and was answered <success/>; the callback was shown %v", i, n, x.user, x.pass, shown)
		}
	}
	// c4: what the callback was shown is what the peers presented, pair by pair
	rc.Evals["C03.c4"]++
	ps, ss := append([]string(nil), presented...), append([]string(nil), shown...)
	sort.Strings(ps)
	sort.Strings(ss)
	complete := true
	for _, x := range all {
		complete = complete && x.verdict != ""
	}
	if complete && fmt.Sprint(ps) != fmt.Sprint(ss) {
		rc.Failf("C03.c4", "callback-shown-other-credentials:concurrent-receivers", "%d connections authenticated at the same time; their peers presented %v, the permission callback was shown %v", n, ps, ss)
	}
	simrt.Settle(cancel, "h:cancel")
}
