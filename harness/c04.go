package harness

import (
	"bytes"
	"fmt"
	"io"
	"time"

	"mellium.im/xmpp"
	"verif.sim/simrt"
	"verif.sim/simrt/simnet"
)

// C04 — session establishment fails closed under faults.

func init() {
	register(&Scenario{ID: "C04", Run: runC04, FixedSeed: func(tier string, index int, master uint64) (uint64, bool) {
		if tier == "thorough" && index < c04EnumSpan {
			return mix(master, "C04-enum"), true
		}
		return 0, false
	}})
}

// every handshake kind gets this many indices in the thorough enumeration;
// indices beyond a kind's actual space are skipped.
const c04PerKind = 16000

var c04EnumSpan = c04PerKind * len(hsKinds)

type c04Fault struct {
	kind    string // none, cut, readerr, writeerr, cancel
	side    int    // cut: 0 = client->server direction, 1 = server->client; others: 0 client, 1 server
	k       int
	variant int
	silent  bool
	partial int
	once    bool
}

func (f c04Fault) String() string {
	return fmt.Sprintf("%s side=%d k=%d var=%d silent=%v partial=%d once=%v", f.kind, f.side, f.k, f.variant, f.silent, f.partial, f.once)
}

type c04Probe struct {
	lc2s, ls2c     int
	rc, rs, wc, ws int // read / write calls per side
	stepsC, stepsS int
	bounds         [2][]int // offsets just after each '>' per direction
	okC, okS       bool
}

// runHS runs one handshake to the end (both sides returned, or nothing can happen any more).
func runHS(rc *RC, h *HS, cancelAt int, cancelSide int) (cancelStep int, cancelTime time.Duration) {
	return runHSLive(rc, h, cancelAt, cancelSide, false)
}

// runHSLive: with live set the peer of the cancelled side carries on as if nothing had happened.
func runHSLive(rc *RC, h *HS, cancelAt int, cancelSide int, live bool) (cancelStep int, cancelTime time.Duration) {
	h.Start()
	start := rc.S.Steps
	cancelStep = -1
	if cancelAt >= 0 {
		rc.S.Invariant = func() {
			if cancelStep < 0 && rc.S.Steps-start >= cancelAt {
				cancelStep, cancelTime = rc.S.Steps, rc.S.Now()
				x, peer := h.C, h.S
				if cancelSide == 1 {
					x, peer = h.S, h.C
				}
				if live {
					x.cancel()
					rc.Fire("cancel-live")
					return
				}
				peer.conn.Conn.Out().StallNow() // the peer goes silent from this instant …
				if peer.task != nil && h.freezePeer {
					peer.task.Frozen = true // … and stops reading (frozen process): a blocked write stays blocked
					rc.Fire("peer-frozen")
				}
				x.cancel()
				rc.Fire("cancel")
				rc.Fire("stall")
			}
		}
	}
	rc.S.Run(h.Done, 80000, 6*time.Minute)
	rc.S.Invariant = nil
	return
}

func runC04(rc *RC) {
	ch := rc.Ch
	enum := rc.Tier == "thorough" && rc.Index < c04EnumSpan
	var kind string
	var plainT bool
	if enum {
		kind = hsKinds[rc.Index%len(hsKinds)]
	} else {
		kind = hsKinds[ch.Int("workload", len(hsKinds))]
		plainT = ch.Chance("workload", 1, 4)
	}
	strat := "default"
	if !enum {
		strat = rc.S.ConfigureStrategy()
		if ch.Chance("workload", 1, 2) {
			rc.Net.Chunk = func() int { return 1 + ch.Int("net", 120) }
		}
	}
	// ---- fault-free probe of the same configuration ----
	p := rc.newHS(kind, plainT)
	p.clientOnly = true
	runHS(rc, p, -1, 0)
	pr := c04Probe{lc2s: len(p.C.conn.Out().Tap), ls2c: len(p.S.conn.Out().Tap), rc: p.C.conn.Reads, rs: p.S.conn.Reads, wc: p.C.conn.Writes, ws: p.S.conn.Writes,
		stepsC: p.C.retStep, stepsS: p.S.retStep}
	for d, tap := range [][]byte{p.C.conn.Out().Tap, p.S.conn.Out().Tap} {
		for i, b := range tap {
			if b == '>' {
				pr.bounds[d] = append(pr.bounds[d], i+1)
			}
		}
	}
	checkSides(rc, p, c04Fault{kind: "none"}, pr, -1, 0, true)
	// ---- choose the fault ----
	var f c04Fault
	if enum {
		j := rc.Index / len(hsKinds)
		// every cut offset of both directions, every Read/Write index of both sides as a persistent error, as a one-shot
		// error, and (writes) as a one-shot error reported after all the bytes went out
		type espace struct {
			n       int
			kind    string
			side    int
			once    bool
			partial int
			base    int
		}
		spaces := []espace{
			{pr.lc2s + 1, "cut", 0, false, 0, 0}, {pr.ls2c + 1, "cut", 1, false, 0, 0},
			{pr.rc, "readerr", 0, false, 0, 1}, {pr.rs, "readerr", 1, false, 0, 1},
			{pr.wc, "writeerr", 0, false, 0, 1}, {pr.ws, "writeerr", 1, false, 0, 1},
			{pr.rc, "readerr", 0, true, 0, 1}, {pr.rs, "readerr", 1, true, 0, 1},
			{pr.wc, "writeerr", 0, true, 0, 1}, {pr.ws, "writeerr", 1, true, 0, 1},
			{pr.wc, "writeerr", 0, true, 1 << 30, 1}, {pr.ws, "writeerr", 1, true, 1 << 30, 1},
		}
		total := 0
		for _, s := range spaces {
			total += s.n
		}
		rc.Gauges["enum-total:"+kind] = total
		if j >= total {
			rc.Fire("enum-skip")
			rc.Teardown()
			return
		}
		rc.S.Probes["enum-done:"+kind]++
		off := j
		for _, s := range spaces {
			if off < s.n {
				f = c04Fault{kind: s.kind, side: s.side, k: off + s.base, once: s.once, partial: s.partial}
				break
			}
			off -= s.n
		}
		f.variant = j % 3
		f.silent = j%2 == 0
	} else {
		f.kind = []string{"cut", "cut", "cut", "readerr", "writeerr", "cancel", "cancel", "none", "cancel-live"}[ch.Int("faults", 9)]
		f.side = ch.Int("faults", 2)
		f.variant = ch.Int("faults", 3)
		f.silent = ch.Chance("faults", 1, 2)
		f.once = ch.Chance("faults", 1, 2)
		switch f.kind {
		case "cut":
			L := []int{pr.lc2s, pr.ls2c}[f.side]
			if b := pr.bounds[f.side]; len(b) > 0 && ch.Chance("faults", 1, 2) {
				// biased to element boundaries +-1 byte
				f.k = b[ch.Int("faults", len(b))] + ch.Int("faults", 3) - 1
			} else {
				f.k = ch.Int("faults", L+1)
			}
			if f.k < 0 {
				f.k = 0
			}
		case "readerr":
			f.k = 1 + ch.Int("faults", max(1, []int{pr.rc, pr.rs}[f.side]))
		case "writeerr":
			f.k = 1 + ch.Int("faults", max(1, []int{pr.wc, pr.ws}[f.side]))
			f.partial = ch.Int("faults", 40)
			if ch.Chance("faults", 1, 3) {
				f.partial = 1 << 30 // the error is reported although every byte went out
			}
		case "cancel":
			f.k = ch.Int("faults", max(1, []int{pr.stepsC, pr.stepsS}[f.side]-p.C.retStep+max(pr.stepsC, pr.stepsS))+1)
			f.k = ch.Int("faults", max(pr.stepsC, pr.stepsS)+2)
		case "cancel-live":
			// the caller gives up while the peer carries on: before the call (k = 0) or after k steps
			if !ch.Chance("faults", 1, 4) {
				f.k = ch.Int("faults", max(pr.stepsC, pr.stepsS)+2)
			}
		}
	}
	rc.Describe("hs=%s plain=%v strategy=%s fault=%v probe(c2s=%d s2c=%d reads=%d/%d writes=%d/%d)", kind, plainT, strat, f, pr.lc2s, pr.ls2c, pr.rc, pr.rs, pr.wc, pr.ws)
	rc.CaseKey = fmt.Sprint(kind, f)
	// ---- the faulted handshake ----
	h := rc.newHS(kind, plainT)
	cutErrs := []error{nil, io.ErrUnexpectedEOF, simnet.ErrReset}
	// an injected I/O error is a plain error, a net.Error that reports a timeout, or ETIMEDOUT - while the context is alive
	ioErrs := []error{simnet.ErrInjected, simnet.ErrInjectedTimeout, simnet.ErrInjectedETIMEDOUT}
	cancelAt := -1
	switch f.kind {
	case "cut":
		d := h.C.conn.Conn.Out()
		if f.side == 1 {
			d = h.S.conn.Conn.Out()
		}
		d.CutAt, d.CutErr, d.CutSilent = f.k, cutErrs[f.variant], f.silent
	case "readerr":
		c := []*hsSide{h.C, h.S}[f.side].conn.Conn
		c.ReadErrAt, c.ReadErr, c.ReadErrOnce = f.k, ioErrs[f.variant], f.once
	case "writeerr":
		c := []*hsSide{h.C, h.S}[f.side].conn.Conn
		c.WriteErrAt, c.WriteErr, c.WritePartial, c.WriteErrOnce = f.k, ioErrs[f.variant], f.partial, f.once
	case "cancel":
		cancelAt = f.k
		if f.variant > 0 {
			// back-pressure: the cancelled side's writes block until the peer reads
			x := []*hsSide{h.C, h.S}[f.side]
			x.conn.Conn.Out().Cap = []int{0, 24, 200}[f.variant]
			h.freezePeer = true
		}
	}
	if f.kind == "cancel-live" {
		cancelAt = f.k
	}
	cancelStep, cancelTime := runHSLive(rc, h, cancelAt, f.side, f.kind == "cancel-live")
	checkSides(rc, h, f, pr, cancelStep, cancelTime, false)
	stuck := rc.Teardown()
	rc.CheckPanics("C04.c1")
	rc.Check("C04.c6", "goroutine-survives-teardown", len(stuck) == 0, "tasks still blocked after teardown (hs=%s fault=%v): %v", kind, f, stuck)
}

func checkSides(rc *RC, h *HS, f c04Fault, pr c04Probe, cancelStep int, cancelTime time.Duration, probe bool) {
	sides := []*hsSide{h.C, h.S}
	for i, x := range sides {
		if x.scripted {
			continue
		}
		role := x.name
		ready := x.sess != nil && stateOf(rc, x.sess)&xmpp.Ready != 0
		// c4: nil error only for a ready session whose every executed step succeeded
		if x.done && x.err == nil {
			rc.Evals["C04.c4"]++
			if !ready {
				rc.Failf("C04.c4", "nil-error-not-ready:"+h.kind+"/"+role, "%s returned a nil error but the session is not ready (hs=%s fault=%v)", role, h.kind, f)
			}
			for _, st := range x.steps {
				if st.Err != nil {
					rc.Failf("C04.c4", "step-error-swallowed:"+h.kind+"/"+role+"/"+st.NS, "%s returned a nil error although negotiation step %s failed with %v (hs=%s fault=%v)", role, st.NS, st.Err, h.kind, f)
				}
			}
			// c3: no transport error may be swallowed
			rc.Evals["C04.c3"]++
			if x.conn.firstErr != nil {
				rc.Failf("C04.c3", "transport-error-swallowed:"+h.kind+"/"+role+"/"+x.conn.errOp, "%s returned a nil error although its transport returned %v from a %s during establishment (hs=%s fault=%v)", role, x.conn.firstErr, x.conn.errOp, h.kind, f)
			}
		}
		if x.done && x.err != nil {
			rc.Evals["C04.c2"]++
			if ready {
				rc.Failf("C04.c2", "error-but-ready:"+h.kind+"/"+role, "%s returned %v but the session is marked ready (hs=%s fault=%v)", role, x.err, h.kind, f)
			}
		}
		if probe {
			if h.kind == "volfail" || h.kind == "volparse" || h.kind == "listfail" {
				continue // the failing feature is evaluated by c4 above; the other side waits for what never comes
			}
			if !x.done || x.err != nil {
				rc.Infraf("fault-free %s handshake: %s done=%v err=%v stuck=%v", h.kind, role, x.done, x.err, rc.S.Stuck())
			}
			continue
		}
		// c2: the reader of a direction that was cut before its end must fail
		if f.kind == "cut" && f.side != i {
			// this side reads the cut direction
			d := sides[f.side].conn.Conn.Out()
			L := []int{pr.lc2s, pr.ls2c}[f.side]
			if d.IsCut() && f.k < L {
				rc.Evals["C04.c2"]++
				if !x.done {
					if !h.plain {
						rc.Failf("C04.c2", "cut-reader-hangs:"+h.kind+"/"+role, "%s: the peer's stream ended after %d of %d bytes but the call has not returned (stuck %v)", role, f.k, L, rc.S.Stuck())
					}
				} else if x.err == nil {
					rc.Failf("C04.c2", "cut-not-detected:"+h.kind+"/"+role, "%s returned nil although the peer's stream was cut after %d of %d bytes (near %q)", role, f.k, L, tail(d.Tap, 60))
				}
			}
		}
		// c7: the context ended before negotiation had completed, the peer carried on. Where the library is certain to
		// look at its context - before anything else when the call starts, and, as the initiator, every time it has sent a
		// stream header and turns to read the peer's - a context that has ended must end the call with an error.
		if f.kind == "cancel-live" && f.side == i && cancelStep >= 0 && !x.scripted && x.done && x.err == nil {
			rc.Evals["C04.c7"]++
			late := -1
			for _, w := range x.conn.hdrWrites {
				if w > cancelStep {
					late = w
				}
			}
			switch {
			case f.k == 0:
				rc.Failf("C04.c7", "cancelled-before-call-succeeds:"+h.kind+"/"+role, "%s: the context had ended before the call started (peer alive, transport deadlines=%v) and the call returned a nil error and a session in state %v", role, !h.plain, stateOf(rc, x.sess))
			case i == 0 && late >= 0:
				rc.Failf("C04.c7", "cancel-ignored-at-stream-start:"+h.kind+"/"+role, "%s: the context ended at step %d (peer alive, transport deadlines=%v); the initiator opened a new stream at step %d, read the peer's header and went on to a nil error", role, cancelStep, !h.plain, late)
			}
		}
		// c5: cancellation with a silent peer on a deadline-capable transport
		if f.kind == "cancel" && f.side == i && cancelStep >= 0 {
			rc.Evals["C04.c5"]++
			switch {
			case x.done && x.retStep < cancelStep:
				// finished before the cancellation: nothing to demand
			case !x.done || x.retTime > cancelTime+60*time.Second:
				if !h.plain {
					rc.Failf("C04.c5", "outlives-cancel:"+h.kind+"/"+role, "%s: context cancelled at step %d (t=%v) with a silent peer on a deadline-capable transport, call returned=%v at t=%v; stuck %v", role, cancelStep, cancelTime, x.done, x.retTime, rc.S.Stuck())
				}
			case x.err == nil:
				// returned after the cancellation with success: only legitimate if everything it needed had already arrived
				rc.S.Probes["cancel-after-last-input"]++
			}
		}
	}
	_ = bytes.MinRead
}

// stateOf reads Session.State from the scheduler goroutine (all tasks parked).
func stateOf(rc *RC, s *xmpp.Session) (st xmpp.SessionState) {
	defer func() {
		if r := recover(); r != nil {
			rc.Infraf("State() from the oracle would block: %v", r)
		}
	}()
	return s.State()
}

var _ = simrt.Yield
