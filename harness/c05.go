package harness

import (
	"bytes"
	"context"
	"encoding/xml"
	"fmt"
	"io"
	"regexp"
	"sort"
	"strings"
	"time"

	"mellium.im/xmlstream"
	"mellium.im/xmpp"
	"mellium.im/xmpp/jid"
	"mellium.im/xmpp/stanza"
	"verif.sim/simrt"
	"verif.sim/simrt/simnet"
)

// C05 — each transmit call puts exactly its own element on the wire, whole.

func init() { register(&Scenario{ID: "C05", Run: runC05}) }

// xSpec is an abstract element: what a transmit call is asked to send.
type xSpec struct {
	space, local string
	attrs        [][2]string // local name (or "xmlns"), value
	kids         []any       // *xSpec or string
}

func (s *xSpec) attr(k string) (string, bool) {
	for _, a := range s.attrs {
		if a[0] == k {
			return a[1], true
		}
	}
	return "", false
}

func (s *xSpec) start() xml.StartElement {
	st := xml.StartElement{Name: xml.Name{Space: s.space, Local: s.local}}
	for _, a := range s.attrs {
		st.Attr = append(st.Attr, xml.Attr{Name: xml.Name{Local: a[0]}, Value: a[1]})
	}
	return st
}

func (s *xSpec) tokens(out *[]xml.Token) {
	st := s.start()
	*out = append(*out, st)
	s.kidTokens(out)
	*out = append(*out, st.End())
}

func (s *xSpec) kidTokens(out *[]xml.Token) {
	for _, k := range s.kids {
		switch x := k.(type) {
		case *xSpec:
			x.tokens(out)
		case string:
			*out = append(*out, xml.CharData(x))
		}
	}
}

// failingReader fails (for good) when it is asked for token number `after`: with an ordinary error, with a network
// error (the payload is relayed from another connection that ran into its deadline), or - the source simply dried up -
// with io.EOF while elements are still open.
type failingReader struct {
	yieldReader
	after  int
	failed bool
	err    error
	onFail func() // runs once, right before the first failure is reported
}

func (r *failingReader) Token() (xml.Token, error) {
	if r.i >= r.after || r.failed {
		simrt.Yield("tok")
		if !r.failed && r.onFail != nil {
			r.onFail()
		}
		r.failed = true
		if r.err != nil {
			return nil, r.err
		}
		return nil, errBoom
	}
	return r.yieldReader.Token()
}

// openAt: how many elements are open after the first n tokens (not counting the outermost one if outer is set).
func openAt(toks []xml.Token, n int, outer bool) int {
	d := 0
	for _, t := range toks[:min(n, len(toks))] {
		switch t.(type) {
		case xml.StartElement:
			d++
		case xml.EndElement:
			d--
		}
	}
	if outer && d > 0 {
		d--
	}
	return d
}

// failKinds: what a failing payload source reports.
var failKinds = []error{nil, simnet.ErrInjectedTimeout, io.ErrUnexpectedEOF, io.EOF, fmt.Errorf("relay: %w", simnet.ErrInjectedETIMEDOUT)}

// yieldReader hands out tokens one at a time with a scheduling point before
// each, so that other tasks may try to get in between two tokens of one element.
type yieldReader struct {
	toks []xml.Token
	i    int
	// eofWithLast: the last token comes together with io.EOF (which the xml.TokenReader contract of xmlstream allows)
	eofWithLast bool
}

func (r *yieldReader) Token() (xml.Token, error) {
	if r.i >= len(r.toks) {
		return nil, io.EOF
	}
	simrt.Yield("tok")
	t := r.toks[r.i]
	r.i++
	if r.eofWithLast && r.i == len(r.toks) {
		return xml.CopyToken(t), io.EOF
	}
	return xml.CopyToken(t), nil
}

func specReader(s *xSpec) xml.TokenReader {
	var t []xml.Token
	s.tokens(&t)
	return &yieldReader{toks: t}
}

func kidsReader(s *xSpec) xml.TokenReader {
	var t []xml.Token
	s.kidTokens(&t)
	return &yieldReader{toks: t}
}

type specMarshaler struct{ s *xSpec }

func (m specMarshaler) TokenReader() xml.TokenReader { return specReader(m.s) }

type specWriterTo struct{ s *xSpec }

func (m specWriterTo) WriteXML(w xmlstream.TokenWriter) (int, error) {
	return xmlstream.Copy(w, specReader(m.s))
}

func escText(s string) string {
	var b bytes.Buffer
	xml.EscapeText(&b, []byte(s))
	return b.String()
}

// refText serialises the element the way it must denote on the wire: top is
// the top-level completion the session is specified to perform (stream
// namespace for unqualified stanzas, from on S2S, an id).
func refText(s *xSpec, top bool, ns string, from string, sb *strings.Builder) {
	space := s.space
	if v, ok := s.attr("xmlns"); ok && space == "" {
		space = v
	}
	isStanza := top && (s.local == "iq" || s.local == "message" || s.local == "presence") && (space == "" || space == ns || space == "jabber:client" || space == "jabber:server")
	if isStanza && space == "" {
		space = ns
	}
	sb.WriteString("<" + s.local)
	if space != "" {
		fmt.Fprintf(sb, ` xmlns="%s"`, space)
	}
	hasID, hasFrom := false, false
	for _, a := range s.attrs {
		if a[0] == "xmlns" {
			continue
		}
		if isStanza && (a[0] == "id" || a[0] == "from") && a[1] == "" {
			continue
		}
		if a[0] == "id" {
			hasID = true
		}
		if a[0] == "from" {
			hasFrom = true
		}
		fmt.Fprintf(sb, ` %s="%s"`, a[0], escText(a[1]))
	}
	if isStanza && !hasFrom && from != "" {
		fmt.Fprintf(sb, ` from="%s"`, from)
	}
	if isStanza && !hasID {
		sb.WriteString(` id="*"`)
	}
	sb.WriteString(">")
	for _, k := range s.kids {
		switch x := k.(type) {
		case *xSpec:
			refText(x, false, ns, from, sb)
		case string:
			sb.WriteString(escText(x))
		}
	}
	sb.WriteString("</" + s.local + ">")
}

// canon renders parsed tokens order-insensitively for attributes, without namespace declarations.
func canon(toks []xml.Token, wildID bool) []string {
	var out []string
	depth := 0
	for _, t := range toks {
		switch x := t.(type) {
		case xml.StartElement:
			var as []string
			for _, a := range x.Attr {
				if a.Name.Space == "xmlns" || a.Name.Local == "xmlns" {
					continue
				}
				v := a.Value
				if depth == 0 && a.Name.Local == "id" && wildID && v != "" {
					v = "*"
				}
				as = append(as, fmt.Sprintf("%s|%s=%q", a.Name.Space, a.Name.Local, v))
			}
			sort.Strings(as)
			out = append(out, fmt.Sprintf("<%s|%s %s>", x.Name.Space, x.Name.Local, strings.Join(as, " ")))
			depth++
		case xml.EndElement:
			depth--
			out = append(out, fmt.Sprintf("</%s|%s>", x.Name.Space, x.Name.Local))
		case xml.CharData:
			if n := len(out); n > 0 && strings.HasPrefix(out[n-1], "T") {
				out[n-1] = out[n-1] + string(x)
			} else {
				out = append(out, "T"+string(x))
			}
		default:
			out = append(out, tokStr(t))
		}
	}
	return out
}

type c05Call struct {
	kind   string
	form   string
	marker string
	spec   *xSpec // what the call is asked to transmit (after wrapping by the entry point)
	wildID bool
	err    error
	done   bool
	known  string // non-empty: signature suffix for a clause that is evaluated separately
	// expectFail: the call's own token reader fails part of the way through; the call must fail, and must not disturb
	// the elements of the calls that succeed
	expectFail bool
	anyOutcome bool // … or may fail or not: only what follows it is checked
	twin       *c05Call // SendElement-twice: the second call made with the very same start element value
	alt        *xSpec   // EncodeElement: the value's own encoding (what goes out if the supplied start is ignored)
}

type c05Struct struct {
	XMLName xml.Name
	To      string `xml:"to,attr,omitempty"`
	ID      string `xml:"id,attr,omitempty"`
	MK      string `xml:"mk,attr"`
	Body    string `xml:"body"`
}

var c05Marker = regexp.MustCompile(`K[0-9]+k`)

func genSpec(rc *RC, ns, marker string, stanzaOnly bool, big bool) *xSpec {
	ch := rc.Ch
	names := []string{"message", "presence", "iq", "x", "message", "message"}
	s := &xSpec{local: names[ch.Int("workload", len(names))]}
	if stanzaOnly && s.local == "x" {
		s.local = "message"
	}
	switch ch.Int("workload", 4) {
	case 0:
		s.space = ns
	case 1:
		if s.local == "x" {
			s.space = "urn:x"
		}
	}
	if s.local == "x" && s.space == ns {
		s.space = "urn:x"
	}
	if s.local == "iq" {
		s.attrs = append(s.attrs, [2]string{"type", "result"})
	}
	if s.local == "message" || s.local == "presence" {
		s.attrs = append(s.attrs, [2]string{"type", "error"})
	}
	switch ch.Int("workload", 4) {
	case 0:
		s.attrs = append(s.attrs, [2]string{"id", "id-" + marker})
	case 1:
		s.attrs = append(s.attrs, [2]string{"id", ""})
	}
	switch ch.Int("workload", 5) {
	case 0:
		s.attrs = append(s.attrs, [2]string{"from", "me@example.net/other"})
	case 1:
		s.attrs = append(s.attrs, [2]string{"from", ""})
	}
	s.attrs = append(s.attrs, [2]string{"to", "peer@example.net"}, [2]string{"mk", marker})
	if ch.Chance("workload", 1, 5) && s.space != "" {
		s.attrs = append(s.attrs, [2]string{"xmlns", s.space}) // duplicate declaration
	} else if s.space == "" && s.local != "x" && ch.Chance("workload", 1, 5) {
		// an unqualified name that carries its namespace as a plain xmlns attribute (what a decoder's raw tokens look like)
		s.attrs = append(s.attrs, [2]string{"xmlns", ns})
	}
	nk := ch.Range("workload", 0, 3)
	for i := 0; i < nk; i++ {
		switch ch.Int("workload", 5) {
		case 0:
			// nested stanza-named child
			s.kids = append(s.kids, &xSpec{local: "message", attrs: [][2]string{{"id", ""}, {"n", marker}}, kids: []any{&xSpec{local: "body", kids: []any{"in " + marker}}}})
		case 1:
			s.kids = append(s.kids, &xSpec{space: "urn:y", local: "y", attrs: [][2]string{{"a", "1&<>\"'"}}})
		case 2:
			s.kids = append(s.kids, &xSpec{local: "iq", attrs: [][2]string{{"type", "result"}, {"id", "inner"}}})
		default:
			s.kids = append(s.kids, &xSpec{local: "body", kids: []any{"text <" + marker + "> & more"}})
		}
	}
	if big {
		n := ch.Range("workload", 3000, 20000)
		s.kids = append(s.kids, &xSpec{local: "blob", kids: []any{strings.Repeat("0123456789abcdef", n/16) + marker}})
	}
	s.kids = append(s.kids, &xSpec{local: "tail", kids: []any{marker}})
	return s
}

// c05WriteFault: the fault-injecting configuration, kept apart from the fault-free one so that the relaxations it
// needs hide nothing there. From its k-th Write on the transport fails (after delivering a drawn prefix); a transmit
// call may then fail, but one that returns nil has put its whole element on the wire.
func c05WriteFault(rc *RC) {
	ch := rc.Ch
	opts := E2Opts{S2S: ch.Chance("workload", 1, 3)}
	strat := rc.S.ConfigureStrategy()
	e := rc.NewE2(opts)
	if e == nil {
		return
	}
	e.Serve(xmpp.HandlerFunc(func(xmlstream.TokenReadEncoder, *xml.StartElement) error { return nil }))
	k := e.SUT.Writes + ch.Range("faults", 1, 6)
	e.SUT.WriteErrAt, e.SUT.WriteErr, e.SUT.WritePartial, e.SUT.WriteErrOnce = k, simnet.ErrInjected, ch.Int("faults", 60), ch.Chance("faults", 1, 3)
	kinds := []string{"Send", "SendElement", "Encode/struct", "Encode/marshaler", "Encode/tokenreader", "EncodeElement", "TokenWriter"}
	var calls []*c05Call
	var tasks []*simrt.Task
	mk := 0
	for i, n := 0, ch.Range("workload", 1, 3); i < n; i++ {
		var pl []*c05Call
		for j, m := 0, ch.Range("workload", 1, 4); j < m; j++ {
			mk++
			c := &c05Call{kind: kinds[ch.Int("workload", len(kinds))], marker: fmt.Sprintf("K%dk", mk)}
			pl = append(pl, c)
			calls = append(calls, c)
		}
		tasks = append(tasks, rc.Spawn(fmt.Sprintf("caller%d", i), func() {
			for _, c := range pl {
				ctx, cancel := context.WithTimeout(e.Ctx, 5*time.Second)
				body := fmt.Sprintf(`<message to="peer@example.net" mk="%s"><body>%s</body></message>`, c.marker, strings.Repeat("b", ch.Range("workload", 0, 300)))
				s := e.Sess
				switch c.kind {
				case "Send":
					c.err = s.Send(ctx, xml.NewDecoder(strings.NewReader(body)))
				case "SendElement":
					c.err = s.SendElement(ctx, xmlstream.Wrap(xmlstream.Token(xml.CharData("x")), xml.StartElement{Name: xml.Name{Local: "body"}}), xml.StartElement{Name: xml.Name{Local: "message"}, Attr: []xml.Attr{{Name: xml.Name{Local: "mk"}, Value: c.marker}}})
				case "Encode/struct":
					c.err = s.Encode(ctx, c05Struct{XMLName: xml.Name{Local: "message"}, MK: c.marker, To: "peer@example.net"})
				case "Encode/marshaler":
					c.err = s.Encode(ctx, readerMarshaler{xml.NewDecoder(strings.NewReader(body))})
				case "Encode/tokenreader":
					c.err = s.Encode(ctx, xml.NewDecoder(strings.NewReader(body)))
				case "EncodeElement":
					c.err = s.EncodeElement(ctx, c05Struct{XMLName: xml.Name{Local: "message"}, MK: c.marker, To: "peer@example.net"}, xml.StartElement{Name: xml.Name{Local: "message"}})
				case "TokenWriter":
					w := s.TokenWriter()
					_, err := xmlstream.Copy(w, xml.NewDecoder(strings.NewReader(body)))
					if err == nil {
						err = w.Flush()
					}
					if cerr := w.Close(); err == nil {
						err = cerr
					}
					c.err = err
				}
				c.done = true
				simrt.Settle(cancel, "h:cancel")
			}
		}))
	}
	rc.Describe("write-fault strategy=%s s2s=%v at-write=%d partial=%d once=%v calls=%d", strat, opts.S2S, k, e.SUT.WritePartial, e.SUT.WriteErrOnce, len(calls))
	rc.CaseKey = fmt.Sprint("wf", opts.S2S, e.SUT.WriteErrOnce)
	st := rc.S.Run(func() bool {
		for _, t := range tasks {
			if !t.Done() {
				return false
			}
		}
		return true
	}, 100000, time.Minute)
	if st != simrt.CondMet {
		rc.Failf("C05.c1", "calls-not-finished:write-fault", "transmit calls did not all return after a transport write error: status %v, stuck %v", st, rc.S.Stuck())
	}
	// what the peer can have received: the bytes the transport accepted
	tap := e.SUT.Out().Tap
	w := ParseWire(tap)
	for _, c := range calls {
		if !c.done || c.err != nil {
			continue
		}
		rc.Evals["C05.c2"]++
		whole := false
		for _, x := range w.Elems {
			if x.Attr("mk") == c.marker {
				whole = true
			}
		}
		if !whole {
			rc.Failf("C05.c2", "nil-but-not-on-wire:"+c.kind, "%s(%s) returned nil although the transport failed and its element did not reach the wire whole (the transport accepted %q)", c.kind, c.marker, tail(tap, 200))
		}
	}
	rc.Spawn("peer-close", func() { e.PeerWrite(e.CloseTag()) })
	rc.S.Run(func() bool { return e.ServeDone }, 20000, time.Minute)
	stuck := rc.Teardown()
	rc.CheckPanics("C05.c1")
	rc.Check("C05.c1", "stuck-after-teardown", len(stuck) == 0, "tasks still blocked after teardown: %v", stuck)
}

func runC05(rc *RC) {
	ch := rc.Ch
	if ch.Chance("workload", 1, 6) {
		c05WriteFault(rc)
		return
	}
	opts := E2Opts{S2S: ch.Chance("workload", 1, 3), Chunk: ch.Chance("workload", 1, 2)}
	if !opts.S2S && ch.Chance("workload", 1, 4) {
		opts.WS = true
	}
	if !opts.WS && ch.Chance("workload", 1, 3) {
		opts.Recv = true // the session was received, not initiated
	}
	if !opts.WS && !opts.Recv && !opts.S2S && ch.Chance("workload", 1, 5) {
		opts.Comp = true // a component's session: the content namespace is jabber:component:accept
	}
	strat := rc.S.ConfigureStrategy()
	// a sixth of the runs: a second session of the process transmits at the same time (half of them with every
	// statement-level preemption point armed)
	dual := ch.Chance("workload", 1, 6)
	if dual && ch.Chance("workload", 1, 2) {
		rc.S.ForceDense([]int{4, 12, 40}[ch.Int("workload", 3)])
	}
	e := rc.NewE2(opts)
	if e == nil {
		return
	}
	// WebSocket framing: no enclosing element, every top-level element declares its namespace
	stanzaDepth, nsd := 2, ""
	if opts.WS {
		stanzaDepth, nsd = 1, ` xmlns="jabber:client"`
	}
	from := ""
	if opts.S2S {
		from = e.Local.String()
	}
	nCallers := ch.Range("workload", 2, 5)
	kinds := []string{"Send", "SendElement", "Encode", "EncodeElement", "SendIQElement", "SendMessageElement", "SendPresenceElement", "EncodeIQ", "SendIQ-get", "TokenWriter", "Encode", "Send"}
	if ch.Chance("workload", 1, 3) {
		// callers whose own payload reader fails half way, and callers that use one start element value for two calls
		kinds = append(kinds, "Send-failing-reader", "SendElement-failing-reader", "SendElement-twice", "SendElement-nameless-start", "Encode-failing-marshaler", "Send-mismatched-end", "SendElement-stray-end")
	}
	var calls []*c05Call
	var plans [][]*c05Call
	mk := 0
	for i := 0; i < nCallers; i++ {
		var pl []*c05Call
		for k, n := 0, ch.Range("workload", 1, 4); k < n; k++ {
			mk++
			c := &c05Call{kind: kinds[ch.Int("workload", len(kinds))], marker: fmt.Sprintf("K%dk", mk)}
			pl = append(pl, c)
			calls = append(calls, c)
			if c.kind == "SendElement-twice" {
				mk++
				c.twin = &c05Call{kind: "SendElement-twice/2nd", marker: fmt.Sprintf("K%dk", mk)}
				calls = append(calls, c.twin)
			}
		}
		plans = append(plans, pl)
	}
	nPings := ch.Range("workload", 0, 3)
	rc.Describe("strategy=%s s2s=%v ws=%v recv=%v chunk=%v callers=%d pings=%d", strat, opts.S2S, opts.WS, opts.Recv, opts.Chunk, nCallers, nPings)

	perform := func(c *c05Call) {
		ctx, cancel := context.WithTimeout(e.Ctx, 10*time.Second)
		defer simrt.Settle(cancel, "h:cancel")
		big := ch.Chance("workload", 1, 6)
		s := e.Sess
		switch c.kind {
		case "Send":
			c.spec = genSpec(rc, e.NS, c.marker, false, big)
			r := specReader(c.spec).(*yieldReader)
			if r.eofWithLast = ch.Chance("workload", 1, 4); r.eofWithLast {
				rc.Fire("eof-with-last-token")
			}
			c.err = s.Send(ctx, r)
		case "SendElement":
			c.spec = genSpec(rc, e.NS, c.marker, false, big)
			if ch.Chance("workload", 1, 5) {
				// a payload of one single token (text), in the shape xmlstream.Token gives it: the token and io.EOF together
				c.spec.kids = []any{"only " + c.marker}
				rc.Fire("single-token-payload")
			}
			r := kidsReader(c.spec).(*yieldReader)
			if r.eofWithLast = ch.Chance("workload", 1, 3); r.eofWithLast {
				rc.Fire("eof-with-last-token")
			}
			c.err = s.SendElement(ctx, r, c.spec.start())
		case "Send-mismatched-end":
			// a payload one of whose end tags does not match its start tag (a relayed token stream that lost a namespace):
			// the call fails, and that is all
			c.spec = genSpec(rc, e.NS, c.marker, false, false)
			c.expectFail = true
			var toks []xml.Token
			c.spec.tokens(&toks)
			// (an inner one: Send writes the outermost end tag itself, from the start tag it read)
			var ends []int
			for i, t := range toks[:len(toks)-1] {
				if _, ok := t.(xml.EndElement); ok {
					ends = append(ends, i)
				}
			}
			if len(ends) == 0 {
				c.expectFail = false
				c.err = s.Send(ctx, &yieldReader{toks: toks})
				break
			}
			k := ends[ch.Int("workload", len(ends))]
			end := toks[k].(xml.EndElement)
			if end.Name.Space != "" && ch.Chance("workload", 1, 2) {
				end.Name.Space = ""
			} else {
				end.Name.Local += "x"
			}
			toks[k] = end
			c.err = s.Send(ctx, &yieldReader{toks: toks})
			rc.Fire("mismatched-end")
		case "Send-failing-reader", "SendElement-failing-reader":
			c.spec = genSpec(rc, e.NS, c.marker, false, big)
			c.expectFail = true
			var toks []xml.Token
			if c.kind == "Send-failing-reader" {
				c.spec.tokens(&toks)
			} else {
				c.spec.kidTokens(&toks)
			}
			r := &failingReader{yieldReader: yieldReader{toks: toks}, after: ch.Int("workload", len(toks)+1), err: failKinds[ch.Int("workload", len(failKinds))]}
			if r.err == io.EOF && openAt(toks, r.after, c.kind == "Send-failing-reader") == 0 {
				r.err = nil // an end of input between two complete children is no truncation anybody could notice
			}
			cctx := ctx
			if ch.Chance("workload", 1, 3) {
				// the payload is produced under the call's own context, which ends half way: the source reports that
				var ccancel context.CancelFunc
				cctx, ccancel = context.WithCancel(ctx)
				defer ccancel()
				r.err = context.Canceled
				r.onFail = func() { simrt.Settle(ccancel, "h:cancel"); rc.Fire("context-ends-in-payload") }
			}
			if c.kind == "Send-failing-reader" {
				c.err = s.Send(cctx, r)
			} else {
				c.err = s.SendElement(cctx, r, c.spec.start())
			}
			if r.failed {
				rc.Fire("reader-error")
			} else {
				c.expectFail = false // the reader was never asked for the token it fails on (it had delivered everything)
			}
		case "Encode-failing-marshaler":
			// a value whose TokenReader fails part of the way through
			c.spec = genSpec(rc, e.NS, c.marker, false, big)
			c.expectFail = true
			var toks []xml.Token
			c.spec.tokens(&toks)
			r := &failingReader{yieldReader: yieldReader{toks: toks}, after: ch.Int("workload", len(toks)+1), err: failKinds[ch.Int("workload", len(failKinds))]}
			if r.err == io.EOF && openAt(toks, r.after, false) == 0 {
				r.err = nil
			}
			c.err = s.Encode(ctx, readerMarshaler{r})
			if r.failed {
				rc.Fire("reader-error")
			} else {
				c.expectFail = false
			}
		case "SendElement-stray-end":
			// the payload handed to SendElement still has the element's own end tag at its end (the caller forgot to strip
			// it): whether the call fails or not, it is this call's affair - what is transmitted afterwards is complete
			c.spec = genSpec(rc, e.NS, c.marker, false, false)
			c.expectFail, c.anyOutcome = true, true
			var toks []xml.Token
			c.spec.kidTokens(&toks)
			toks = append(toks, c.spec.start().End())
			if ch.Chance("workload", 1, 3) {
				toks = append(toks, c.spec.start().End()) // … or two of them
			}
			c.err = s.SendElement(ctx, &yieldReader{toks: toks}, c.spec.start())
			rc.Fire("stray-end-tag")
		case "SendElement-nameless-start":
			// a start element without a name cannot be written: the call fails, and that is all
			c.spec = genSpec(rc, e.NS, c.marker, false, false)
			c.expectFail = true
			c.err = s.SendElement(ctx, kidsReader(c.spec), xml.StartElement{Attr: c.spec.start().Attr})
			rc.Fire("nameless-start")
		case "SendElement-twice":
			// one start element value (and so one attribute slice) used for two calls in a row
			c.spec = genSpec(rc, e.NS, c.marker, false, false)
			var attrs [][2]string
			for _, a := range c.spec.attrs {
				if a[0] == "mk" {
					continue
				}
				if a[0] == "id" && a[1] != "" {
					a[1] = "reused-id"
				}
				attrs = append(attrs, a)
			}
			c.spec.attrs = attrs
			st := c.spec.start()
			c.err = s.SendElement(ctx, kidsReader(c.spec), st)
			if _, hasID := c.spec.attr("id"); !hasID {
				c.wildID = true
			}
			if v, _ := c.spec.attr("id"); v == "" {
				c.wildID = true
			}
			c.done = true
			t := c.twin
			t.spec = &xSpec{space: c.spec.space, local: c.spec.local, attrs: attrs, kids: genSpec(rc, e.NS, t.marker, false, false).kids}
			t.err = s.SendElement(ctx, kidsReader(t.spec), st)
			t.wildID = c.wildID
			t.done = true
			rc.Fire("start-element-reused")
			return
		case "TokenWriter":
			c.spec = genSpec(rc, e.NS, c.marker, false, false)
			w := s.TokenWriter()
			// token by token, with flushes in the middle of the element now and then
			var toks []xml.Token
			c.spec.tokens(&toks)
			var err error
			for _, tk := range toks {
				simrt.Yield("tok")
				if err = w.EncodeToken(xml.CopyToken(tk)); err != nil {
					break
				}
				if ch.Chance("workload", 1, 5) {
					if err = w.Flush(); err != nil {
						break
					}
				}
			}
			if e2 := w.Close(); err == nil {
				err = e2
			}
			c.err = err
			if ch.Chance("workload", 1, 2) {
				// closing a writer twice is harmless (an explicit Close plus the deferred one): other callers may hold the
				// output by then
				for i, n := 0, ch.Range("workload", 1, 6); i < n; i++ {
					simrt.Yield("before-second-close")
				}
				if ch.Chance("workload", 1, 2) {
					// so is flushing it: the output belongs to somebody else now
					w.Flush()
				}
				w.Close()
			}
		case "Encode":
			c.form = []string{"struct", "marshaler", "writerto", "tokenreader"}[ch.Int("workload", 4)]
			switch c.form {
			case "struct":
				v := c05Struct{XMLName: xml.Name{Local: "message"}, To: "peer@example.net", MK: c.marker, Body: "b<" + c.marker}
				if ch.Chance("workload", 1, 2) {
					v.XMLName.Space = e.NS
				}
				if ch.Chance("workload", 1, 2) {
					v.ID = "id-" + c.marker
				}
				c.spec = &xSpec{space: v.XMLName.Space, local: "message", attrs: [][2]string{{"to", v.To}}, kids: []any{&xSpec{local: "body", kids: []any{v.Body}}}}
				if v.ID != "" {
					c.spec.attrs = append(c.spec.attrs, [2]string{"id", v.ID})
				}
				c.spec.attrs = append(c.spec.attrs, [2]string{"mk", v.MK})
				c.err = s.Encode(ctx, v)
			case "marshaler":
				c.spec = genSpec(rc, e.NS, c.marker, false, big)
				c.err = s.Encode(ctx, specMarshaler{c.spec})
			case "writerto":
				c.spec = genSpec(rc, e.NS, c.marker, false, big)
				c.known = "writerto"
				c.err = s.Encode(ctx, specWriterTo{c.spec})
			default:
				c.spec = genSpec(rc, e.NS, c.marker, false, big)
				c.err = s.Encode(ctx, specReader(c.spec))
			}
		case "EncodeElement":
			c.form = []string{"struct", "marshaler", "tokenreader"}[ch.Int("workload", 3)]
			inner := genSpec(rc, e.NS, c.marker, false, false)
			outer := &xSpec{local: "message", attrs: [][2]string{{"type", "error"}, {"to", "outer@example.net"}, {"mk", c.marker}, {"o", "1"}}}
			var v any
			switch c.form {
			case "struct":
				// encoding/xml.EncodeElement: the given start replaces the value's own start tag; attribute fields are added to it
				sv := c05Struct{XMLName: xml.Name{Local: "presence"}, MK: c.marker, Body: "b" + c.marker}
				v = sv
				outer.attrs = [][2]string{{"type", "error"}, {"to", "outer@example.net"}, {"o", "1"}, {"mk", c.marker}}
				inner = &xSpec{kids: []any{&xSpec{local: "body", kids: []any{sv.Body}}}}
			case "marshaler":
				v = specMarshaler{inner}
			default:
				v = specReader(inner)
			}
			outer.kids = inner.kids
			c.spec = outer
			if c.form == "struct" {
				c.alt = &xSpec{local: "presence", attrs: [][2]string{{"mk", c.marker}}, kids: inner.kids}
			} else {
				c.alt = inner
			}
			c.known = "encode-element-start"
			c.err = s.EncodeElement(ctx, v, outer.start())
		case "SendIQElement":
			p := &xSpec{space: "urn:verif", local: "p", kids: []any{c.marker}}
			iq := stanza.IQ{Type: stanza.ResultIQ, To: jid.MustParse("peer@example.net")}
			c.spec = &xSpec{local: "iq", attrs: [][2]string{{"type", "result"}, {"to", "peer@example.net"}}, kids: []any{p}}
			if ch.Chance("workload", 1, 2) {
				iq.ID = "id-" + c.marker
				c.spec.attrs = append(c.spec.attrs, [2]string{"id", iq.ID})
			}
			_, c.err = s.SendIQElement(ctx, specReader(p), iq)
		case "SendMessageElement":
			p := &xSpec{local: "body", kids: []any{c.marker}}
			c.spec = &xSpec{local: "message", attrs: [][2]string{{"type", "error"}, {"to", "peer@example.net"}}, kids: []any{p}}
			_, c.err = s.SendMessageElement(ctx, specReader(p), stanza.Message{Type: stanza.ErrorMessage, To: jid.MustParse("peer@example.net")})
		case "SendPresenceElement":
			p := &xSpec{local: "status", kids: []any{c.marker}}
			c.spec = &xSpec{local: "presence", attrs: [][2]string{{"type", "error"}}, kids: []any{p}}
			_, c.err = s.SendPresenceElement(ctx, specReader(p), stanza.Presence{Type: stanza.ErrorPresence})
		case "EncodeIQ":
			v := struct {
				stanza.IQ
				P struct {
					XMLName xml.Name `xml:"urn:verif p"`
					M       string   `xml:",chardata"`
				}
			}{}
			v.IQ.Type, v.IQ.ID = stanza.ResultIQ, "id-"+c.marker
			v.P.M = c.marker
			// encoding/xml marshals the embedded stanza.IQ's zero To as an empty attribute
			c.spec = &xSpec{local: "iq", attrs: [][2]string{{"type", "result"}, {"id", v.IQ.ID}, {"to", ""}}, kids: []any{&xSpec{space: "urn:verif", local: "p", kids: []any{c.marker}}}}
			_, c.err = s.EncodeIQ(ctx, v)
		case "SendIQ-get":
			p := &xSpec{space: "urn:verif", local: "p", kids: []any{c.marker}}
			c.spec = &xSpec{local: "iq", attrs: [][2]string{{"type", "get"}, {"id", "get-" + c.marker}}, kids: []any{p}}
			r, err := s.SendIQ(ctx, stanza.IQ{Type: stanza.GetIQ, ID: "get-" + c.marker}.Wrap(specReader(p)))
			if r != nil {
				r.Close()
			}
			c.err = err
		}
		_, hasID := c.spec.attr("id")
		if v, _ := c.spec.attr("id"); !hasID || v == "" {
			c.wildID = true
		}
		c.done = true
	}

	handler := xmpp.HandlerFunc(func(t xmlstream.TokenReadEncoder, start *xml.StartElement) error {
		elx := Elem{Start: *start}
		if start.Name.Local == "message" && strings.HasPrefix(elx.Attr("id"), "ping") {
			mk++
			c := &c05Call{kind: "handler-reply", marker: fmt.Sprintf("K%dk", mk)}
			calls = append(calls, c)
			c.spec = genSpec(rc, e.NS, c.marker, true, false)
			switch ch.Int("handler", 3) {
			case 0:
				_, c.err = xmlstream.Copy(t, specReader(c.spec))
			case 1:
				c.form = "Encode"
				c.err = t.Encode(specMarshaler{c.spec})
			default:
				c.form = "EncodeToken"
				var toks []xml.Token
				c.spec.tokens(&toks)
				for _, tk := range toks {
					if c.err = t.EncodeToken(tk); c.err != nil {
						break
					}
				}
			}
			_, hasID := c.spec.attr("id")
			if v, _ := c.spec.attr("id"); !hasID || v == "" {
				c.wildID = true
			}
			c.done = true
		}
		return nil
	})
	serveT := e.Serve(handler)
	var tasks []*simrt.Task
	checkSecond := func() {}
	if dual {
		var t2 []*simrt.Task
		t2, checkSecond = c05SecondSession(rc)
		tasks = append(tasks, t2...)
	}
	for i, pl := range plans {
		pl := pl
		tasks = append(tasks, rc.Spawn(fmt.Sprintf("caller%d", i), func() {
			for _, c := range pl {
				perform(c)
			}
		}))
	}
	// peer: answers get IQs, sends pings
	peer := rc.Spawn("peer", func() {
		d := xml.NewDecoder(e.Peer)
		depth := 0
		for {
			tok, err := d.Token()
			if err != nil {
				return
			}
			switch t := tok.(type) {
			case xml.StartElement:
				depth++
				if depth == stanzaDepth && t.Name.Local == "iq" {
					x := Elem{Start: t}
					if x.Attr("type") == "get" {
						e.PeerWrite(fmt.Sprintf(`<iq%s type="result" id="%s"/>`, nsd, x.Attr("id")))
					}
				}
			case xml.EndElement:
				depth--
			}
		}
	})
	peer.Daemon = true
	pinger := rc.Spawn("pinger", func() {
		for i := 0; i < nPings; i++ {
			simrt.Sleep(time.Duration(ch.Range("workload", 0, 3)) * time.Millisecond)
			e.PeerWrite(fmt.Sprintf(`<message%s id="ping%d" from="peer@example.net"/>`, nsd, i))
		}
	})
	tasks = append(tasks, pinger)
	allDone := func() bool {
		for _, t := range tasks {
			if !t.Done() {
				return false
			}
		}
		// every ping handled
		n := 0
		for _, c := range calls {
			if c.kind == "handler-reply" && c.done {
				n++
			}
		}
		// … and the serve loop is back waiting for input (its flush after the handler is done)
		return n == nPings && strings.HasPrefix(serveT.Site, "read:")
	}
	st := rc.S.Run(allDone, 100000, time.Minute)
	if rc.Net.Fired["deadline"] > 0 && rc.Fired["context-ends-in-payload"] > 0 {
		// Nothing in this scenario sets a deadline on the connection except the library itself, which enforces an ended
		// context on a write by setting the write deadline into the past and clearing it again. A write failed on that
		// deadline: the clean-up after the failed payload fell between the two statements (statement-level preemption).
		// The session's encoder keeps that error for good, so the element stays open and every later call fails: one
		// finding (recorded under C06 as well), not one per symptom.
		rc.Failf("C05.c1", "write-deadline-error-after-ended-context", "a call's context ended while its payload was produced; the library's write-deadline helper had set the deadline into the past and not yet cleared it when the call closed what it had opened: that write failed with the connection's deadline error, which the session's encoder keeps (status %v)", st)
		rc.Teardown()
		return
	}
	if st != simrt.CondMet {
		rc.Failf("C05.c1", "calls-not-finished", "transmit calls did not all finish: status %v, stuck %v", st, rc.S.Stuck())
	}
	snapLen := len(e.SUT.Out().Tap)
	// flush marker: one more ordinary Send so that anything a previous call left buffered becomes visible
	var lastErr error
	fl := rc.Spawn("flush", func() {
		lastErr = e.Sess.Send(e.Ctx, specReader(&xSpec{local: "message", attrs: [][2]string{{"type", "error"}, {"id", "final"}}}))
	})
	rc.S.Run(func() bool { return fl.Done() }, 5000, time.Minute)
	_ = lastErr

	// ---- oracle ----
	checkSecond()
	tap := e.SUT.Out().Tap
	w := e.ParseOut()
	rc.Check("C05.c1", "wire-not-well-formed", w.Err == nil && !w.Partial && w.TopText == "", "the output stream does not parse as a sequence of complete top-level elements: err=%v partial=%v text=%q near %q", w.Err, w.Partial, w.TopText, tail(tap[:min(len(tap), w.ErrOff+60)], 160))
	finalIdx := -1
	for i, x := range w.Elems {
		if x.Attr("id") == "final" {
			finalIdx = i
		}
	}
	owner := map[string][]int{} // marker -> element indices
	for i, x := range w.Elems {
		seen := map[string]bool{}
		for _, t := range x.Toks {
			var txt string
			switch v := t.(type) {
			case xml.CharData:
				txt = string(v)
			case xml.StartElement:
				for _, a := range v.Attr {
					txt += " " + a.Value
				}
			}
			for _, m := range c05Marker.FindAllString(txt, -1) {
				seen[m] = true
			}
		}
		rc.Evals["C05.c3"]++
		if len(seen) > 1 {
			var ms []string
			for m := range seen {
				ms = append(ms, m)
			}
			sort.Strings(ms)
			rc.Failf("C05.c3", "interleaved", "one top-level element carries tokens of several calls %v: %s", ms, clip(string(tap[x.Off:x.End]), 300))
		}
		for m := range seen {
			owner[m] = append(owner[m], i)
		}
		// c4: stanza completion
		if n := x.Start.Name; (n.Local == "iq" || n.Local == "message" || n.Local == "presence") && (n.Space == e.NS || n.Space == "") {
			rc.Evals["C05.c4"]++
			if x.Attr("id") == "" {
				rc.Failf("C05.c4", "stanza-without-id", "outgoing stanza without id: %s", clip(string(tap[x.Off:x.End]), 200))
			}
			if n.Space != e.NS {
				rc.Failf("C05.c4", "stanza-wrong-namespace", "outgoing stanza in namespace %q: %s", n.Space, clip(string(tap[x.Off:x.End]), 200))
			}
			if opts.S2S && x.Attr("from") == "" {
				rc.Failf("C05.c4", "s2s-stanza-without-from", "outgoing S2S stanza without from: %s", clip(string(tap[x.Off:x.End]), 200))
			}
		}
	}
	hdr := string(tap[:e.HeaderLen()])
	if opts.WS {
		// no enclosing element, hence no inherited default namespace: only what the element itself declares
		hdr = `<stream:stream xmlns:stream='http://etherx.jabber.org/streams'>`
	}
	for _, c := range calls {
		if c.expectFail {
			rc.Evals["C05.c2"]++
			if c.done && c.err == nil && !c.anyOutcome {
				rc.Failf("C05.c2", "reader-error-swallowed:"+c.kind, "%s(%s): the payload reader failed but the call returned nil", c.kind, c.marker)
			}
			continue
		}
		if !c.done || c.err != nil {
			if c.done && c.err != nil {
				rc.Failf("C05.c2", "call-failed:"+c.kind, "%s(%s) failed without any fault injected: %v", c.kind, c.marker, c.err)
			}
			continue
		}
		rc.Evals["C05.c2"]++
		sig := c.kind
		if c.form != "" {
			sig += "/" + c.form
		}
		if !bytes.Contains(tap[:snapLen], []byte(c.marker)) {
			rc.Failf("C05.c2", "not-flushed:"+sig, "%s(%s) returned nil but nothing of its element was on the wire once all calls had returned (it only appears after a later call flushed)", c.kind, c.marker)
			continue
		}
		idx := owner[c.marker]
		if len(idx) != 1 {
			if len(idx) == 0 && c.known == "writerto" && finalIdx >= 0 {
				rc.Failf("C05.c2", "not-on-wire:"+sig, "%s(%s) returned nil but its element is not on the wire as one element (found in %d elements)", c.kind, c.marker, len(idx))
				continue
			}
			rc.Failf("C05.c2", fmt.Sprintf("marker-in-%d-elements:%s", len(idx), sig), "%s(%s) returned nil but its marker is in %d top-level elements", c.kind, c.marker, len(idx))
			continue
		}
		var sb strings.Builder
		refText(c.spec, true, e.NS, from, &sb)
		rw := ParseWire([]byte(hdr + sb.String()))
		if rw.Err != nil || len(rw.Elems) != 1 {
			rc.Infraf("reference encoding does not parse: %v %q", rw.Err, sb.String())
			continue
		}
		got, want := canon(w.Elems[idx[0]].Toks, c.wildID), canon(rw.Elems[0].Toks, c.wildID)
		if strings.Join(got, "\n") != strings.Join(want, "\n") {
			d := 0
			for d < len(got) && d < len(want) && got[d] == want[d] {
				d++
			}
			g, wv := "<end>", "<end>"
			if d < len(got) {
				g = got[d]
			}
			if d < len(want) {
				wv = want[d]
			}
			if c.alt != nil {
				var ab strings.Builder
				refText(c.alt, true, e.NS, from, &ab)
				if aw := ParseWire([]byte(hdr + ab.String())); aw.Err == nil && len(aw.Elems) == 1 {
					_, hasID := c.alt.attr("id")
					v, _ := c.alt.attr("id")
					if strings.Join(canon(w.Elems[idx[0]].Toks, true), "\n") == strings.Join(canon(aw.Elems[0].Toks, !hasID || v == "" || true), "\n") {
						rc.Failf("C05.c2", "supplied-start-ignored:"+sig, "%s(%s): the supplied start element is not the outermost tag; the value's own start was sent: %s", c.kind, c.marker, clip(string(tap[w.Elems[idx[0]].Off:w.Elems[idx[0]].End]), 300))
						continue
					}
				}
			}
			rc.Failf("C05.c2", "element-differs:"+sig, "%s(%s): element on the wire differs from the argument at token %d: got %s want %s; wire: %s", c.kind, c.marker, d, clip(g, 200), clip(wv, 200), clip(string(tap[w.Elems[idx[0]].Off:w.Elems[idx[0]].End]), 400))
		}
	}
	rc.Spawn("peer-close", func() { e.PeerWrite(e.CloseTag()) })
	rc.S.Run(func() bool { return e.ServeDone }, 20000, time.Minute)
	stuck := rc.Teardown()
	rc.CheckPanics("C05.c1")
	rc.Check("C05.c1", "stuck-after-teardown", len(stuck) == 0, "tasks still blocked after teardown: %v", stuck)
}
