package harness

import (
	"encoding/xml"
	"fmt"
	"strings"

	"mellium.im/xmlstream"
	"mellium.im/xmpp"
	"verif.sim/simrt"
)

// c05SecondSession: a second, independent session of the same process transmits while the first one's callers do (a
// client with two accounts, a server with two connections). Each session has its own output lock; whatever the library
// shares between sessions must not let one session's elements come out with the other's attributes. Returns the tasks to
// wait for and the check of the second session's wire; the first session's wire is checked by the caller as always.
func c05SecondSession(rc *RC) (tasks []*simrt.Task, check func()) {
	ch := rc.Ch
	e2 := rc.NewE2(E2Opts{Tag: "B", Chunk: ch.Chance("workload", 1, 2)})
	if e2 == nil {
		return nil, func() {}
	}
	rc.Fire("second-session")
	e2.Serve(xmpp.HandlerFunc(func(xmlstream.TokenReadEncoder, *xml.StartElement) error { return nil }))
	if ch.Chance("workload", 1, 2) {
		e2.SUT.Out().Cap = ch.Range("net", 16, 300) // a slow connection: an element takes several writes
		rc.Spawn("drainB", func() {
			buf := make([]byte, 4096)
			for {
				if _, err := e2.Peer.Read(buf[:1+ch.Int("net", 200)]); err != nil {
					return
				}
			}
		}).Daemon = true
	}
	type sent struct {
		spec *xSpec
		err  error
		done bool
	}
	var all []*sent
	nT := ch.Range("workload", 1, 2)
	for t := 0; t < nT; t++ {
		var mine []*sent
		for k, n := 0, ch.Range("workload", 1, 5); k < n; k++ {
			id := fmt.Sprintf("B%d-%d", t, k)
			sp := &xSpec{local: []string{"message", "presence", "iq"}[ch.Int("workload", 3)], attrs: [][2]string{{"to", fmt.Sprintf("b%d%d@second.example/%s", t, k, strings.Repeat("r", ch.Range("workload", 1, 40)))}, {"type", []string{"chat", "error", "set", "probe"}[ch.Int("workload", 4)]}, {"id", id}}}
			if ch.Chance("workload", 1, 4) {
				sp.attrs = append(sp.attrs, [2]string{"x", strings.Repeat("v", ch.Range("workload", 1, 6000))})
			}
			kid := &xSpec{space: "urn:verif:second", local: "p", attrs: [][2]string{{"a", id + "a"}, {"b", id + "b"}}, kids: []any{id}}
			sp.kids = append(sp.kids, kid)
			if sp.local == "iq" {
				sp.attrs[1][1] = "result" // nothing waits for an answer
			}
			s := &sent{spec: sp}
			mine = append(mine, s)
			all = append(all, s)
		}
		tasks = append(tasks, rc.Spawn(fmt.Sprintf("callerB%d", t), func() {
			for _, s := range mine {
				switch ch.Int("workload", 3) {
				case 0:
					s.err = e2.Sess.Send(e2.Ctx, specReader(s.spec))
				case 1:
					s.err = e2.Sess.SendElement(e2.Ctx, kidsReader(s.spec), s.spec.start())
				default:
					s.err = e2.Sess.Encode(e2.Ctx, specMarshaler{s.spec})
				}
				s.done = true
			}
		}))
	}
	check = func() {
		w := e2.ParseOut()
		rc.Evals["C05.c1"]++
		rc.Check("C05.c1", "wire-not-well-formed:second-session", w.Err == nil && !w.Partial && w.TopText == "", "the output of a second session that transmitted at the same time does not parse as a sequence of complete top-level elements: err=%v partial=%v text=%q", w.Err, w.Partial, w.TopText)
		for _, s := range all {
			if !s.done || s.err != nil {
				continue
			}
			id, _ := s.spec.attr("id")
			var sb strings.Builder
			refText(s.spec, true, "jabber:client", "", &sb)
			ref := ParseWire([]byte("<stream:stream xmlns:stream='" + nsStream + "' xmlns='jabber:client'>" + sb.String()))
			if ref.Err != nil || len(ref.Elems) != 1 {
				rc.Infraf("second session: reference does not parse: %v", ref.Err)
				continue
			}
			want := strings.Join(canon(ref.Elems[0].Toks, false), "")
			found := 0
			rc.Evals["C05.c2"]++
			for _, x := range w.Elems {
				if strings.Join(canon(x.Toks, false), "") == want {
					found++
				}
			}
			if found != 1 {
				got := ""
				for _, x := range w.Elems {
					if x.Attr("id") == id {
						got = strings.Join(canon(x.Toks, false), "")
					}
				}
				rc.Failf("C05.c2", "element-differs:second-session", "a call on a second session, made while the first session's callers transmitted, returned nil; its element is on that session's wire %d times as sent. sent %s, on the wire under its id: %s", found, clip(want, 400), clip(got, 400))
			}
		}
	}
	return tasks, check
}
