package harness

import (
	"os"
	"context"
	"encoding/xml"
	"errors"
	"fmt"
	"io"
	"regexp"
	"strings"
	"time"

	"mellium.im/xmlstream"
	"mellium.im/xmpp"
	"mellium.im/xmpp/jid"
	"mellium.im/xmpp/mux"
	"mellium.im/xmpp/receipts"
	"mellium.im/xmpp/stanza"
	"verif.sim/simrt"
	"verif.sim/simrt/simnet"
)

// C06 — every correlated wait ends exactly once with its own reply or its
// context's error.

func init() { register(&Scenario{ID: "C06", Run: runC06}) }

var reqKinds = []string{"SendIQ", "SendIQElement", "EncodeIQ", "EncodeIQElement", "UnmarshalIQ", "UnmarshalIQElement", "IterIQ", "IterIQElement", "SendMessage", "SendPresence"}

type reqCall struct {
	kind     string
	id       string
	stanza   string // iq / message / presence
	timeout  time.Duration
	cancelAt time.Duration // explicit cancel (0: none)
	readProg int           // 0 close at once, 1 read some then close, 2 read all then close
	// results
	done      bool
	returns   int
	err       error
	ctxErr    error
	gotMarker string
	gotID     string
	gotName   string
	gotType   string
	retStep   int
	pad       int    // bytes of padding in the request's payload
	qualNS    string // non-empty: the request's start element is qualified with this namespace
	// idMode: 0 the application chooses the id; 1 it leaves the id out; 2 (SendIQ, SendMessage, SendPresence) the start
	// element carries an id attribute that is empty. The library then chooses an id, which the scripted peer learns from
	// the wire (the payload's n attribute names the call) and stores in id.
	idMode int
	nAttr  string
	hold   time.Duration // readProg 1, 2: pause between the response's start tag and the rest
	// when the call's context ended or will end (its deadline, or the instant of the explicit cancel if that came first)
	ctxEndAt time.Duration
}

type vPayload struct {
	XMLName xml.Name `xml:"urn:verif q"`
	N       string   `xml:"n,attr"`
}

type vIQ struct {
	stanza.IQ
	Q vPayload
}

type vResp struct {
	XMLName xml.Name `xml:"urn:verif r"`
	M       string   `xml:"m,attr"`
}

var markerRe = regexp.MustCompile(`R[0-9]+x`)

// readResp consumes a response according to the read program and extracts
// the start element and the marker (if it read far enough).
func readResp(r xmlstream.TokenReadCloser, prog int, c *reqCall) {
	defer r.Close()
	tok, err := r.Token()
	if err != nil {
		return
	}
	st, ok := tok.(xml.StartElement)
	if !ok {
		return
	}
	el := Elem{Start: st}
	c.gotName, c.gotID, c.gotType = st.Name.Local, el.Attr("id"), el.Attr("type")
	if m := el.Attr("m"); m != "" {
		c.gotMarker = m // a result without payload carries its marker itself
	}
	if prog == 0 {
		return
	}
	if c.hold > 0 {
		// an application that takes its time with the response it holds
		simrt.Sleep(c.hold)
	}
	n := 0
	for {
		tok, err := r.Token()
		if err != nil {
			return
		}
		n++
		switch t := tok.(type) {
		case xml.StartElement:
			for _, a := range t.Attr {
				if a.Name.Local == "m" {
					c.gotMarker = a.Value
				}
			}
		case xml.CharData:
			if m := markerRe.FindString(string(t)); m != "" {
				c.gotMarker = m
			}
		}
		if prog == 1 && n >= 2 {
			return
		}
	}
}

func doReq(ctx context.Context, s *xmpp.Session, c *reqCall) {
	var pad xml.TokenReader
	if c.pad > 0 {
		// a payload that takes several writes on the connection
		pad = xmlstream.Token(xml.CharData(strings.Repeat("p", c.pad)))
	}
	c.nAttr = c.id
	q := xmlstream.Wrap(pad, xml.StartElement{Name: xml.Name{Space: "urn:verif", Local: "q"}, Attr: []xml.Attr{{Name: xml.Name{Local: "n"}, Value: c.id}}})
	iq := stanza.IQ{ID: c.id, Type: stanza.GetIQ}
	if len(c.id)%2 == 0 {
		iq.Type = stanza.SetIQ
	}
	nid := c.id
	if c.idMode != 0 {
		iq.ID, nid = "", ""
	}
	emptyID := func(r xml.TokenReader) xml.TokenReader {
		// the same element with an id attribute that is present and empty
		if c.idMode != 2 {
			return r
		}
		tok, _ := r.Token()
		st := tok.(xml.StartElement)
		st.Attr = append([]xml.Attr{{Name: xml.Name{Local: "id"}, Value: ""}}, st.Attr...)
		return xmlstream.MultiReader(xmlstream.Token(st), r)
	}
	if c.qualNS != "" {
		// a request whose start element names the stream's namespace (an IQ rebuilt from a received one, for instance)
		iq.XMLName = xml.Name{Space: c.qualNS, Local: "iq"}
	}
	var resp xmlstream.TokenReadCloser
	var err error
	switch c.kind {
	case "SendIQ":
		resp, err = s.SendIQ(ctx, emptyID(iq.Wrap(q)))
	case "SendIQElement":
		resp, err = s.SendIQElement(ctx, q, iq)
	case "EncodeIQ":
		resp, err = s.EncodeIQ(ctx, vIQ{IQ: iq, Q: vPayload{N: c.nAttr}})
	case "EncodeIQElement":
		resp, err = s.EncodeIQElement(ctx, vPayload{N: c.nAttr}, iq)
	case "UnmarshalIQ", "UnmarshalIQElement":
		var v vResp
		if c.kind == "UnmarshalIQ" {
			err = s.UnmarshalIQ(ctx, iq.Wrap(q), &v)
		} else {
			err = s.UnmarshalIQElement(ctx, q, iq, &v)
		}
		var se stanza.Error
		switch {
		case err == nil:
			c.gotMarker, c.gotID, c.gotName, c.gotType = v.M, c.id, "iq", "result"
		case errors.As(err, &se):
			for _, t := range se.Text {
				c.gotMarker = markerRe.FindString(t)
			}
			c.gotID, c.gotName, c.gotType = c.id, "iq", "error"
			err = nil
		}
		c.err = err
		return
	case "IterIQ", "IterIQElement":
		var it *xmlstream.Iter
		var st *xml.StartElement
		if c.kind == "IterIQ" {
			it, st, err = s.IterIQ(ctx, iq.Wrap(q))
		} else {
			it, st, err = s.IterIQElement(ctx, q, iq)
		}
		var se stanza.Error
		switch {
		case err == nil:
			c.gotID, c.gotName, c.gotType = c.id, "iq", "result"
			if st != nil {
				c.gotMarker = Elem{Start: *st}.Attr("m")
			}
			if c.readProg == 2 {
				for it.Next() {
				}
			}
			it.Close()
		case errors.As(err, &se):
			for _, t := range se.Text {
				c.gotMarker = markerRe.FindString(t)
			}
			c.gotID, c.gotName, c.gotType = c.id, "iq", "error"
			err = nil
		}
		c.err = err
		return
	case "SendMessage":
		resp, err = s.SendMessage(ctx, emptyID(stanza.Message{ID: nid, Type: stanza.ChatMessage}.Wrap(q)))
	case "SendPresence":
		resp, err = s.SendPresence(ctx, emptyID(stanza.Presence{ID: nid}.Wrap(q)))
	}
	c.err = err
	if err == nil && resp != nil {
		readResp(resp, c.readProg, c)
	} else if err == nil {
		c.err = errors.New("harness: nil response and nil error")
	}
}

type peerReply struct {
	marker  string
	id      string
	name    string // stanza kind of the reply
	typ     string
	sent    bool
	sentAt  int // scheduler step when written
	unknown bool
	empty   bool // a result without payload (what a server sends when there is nothing to say): the marker rides on the stanza itself
}

// c06IDTail: ids are opaque strings chosen by the application: characters that need escaping in an attribute, spaces,
// non-ASCII text
func c06IDTail(ch *simrt.Chooser) string {
	if !ch.Chance("workload", 1, 4) {
		return ""
	}
	return []string{`&`, `<x>`, `"q'`, ` sp ace`, "ü€", `&amp;`, "a\tb"}[ch.Int("workload", 7)]
}

func replyXML(p *peerReply) string {
	if p.typ == "error" {
		return fmt.Sprintf(`<%s type="error" id="%s" from="example.net"><error type="cancel"><item-not-found xmlns="urn:ietf:params:xml:ns:xmpp-stanzas"/><text xmlns="urn:ietf:params:xml:ns:xmpp-stanzas">%s</text></error></%s>`, p.name, escText(p.id), p.marker, p.name)
	}
	if p.empty {
		return fmt.Sprintf(`<%s type="result" id="%s" from="example.net" m="%s"/>`, p.name, escText(p.id), p.marker)
	}
	return fmt.Sprintf(`<%s type="result" id="%s" from="example.net"><r xmlns="urn:verif" m="%s"><c/><c/></r></%s>`, p.name, escText(p.id), p.marker, p.name)
}

func runC06(rc *RC) {
	ch := rc.Ch
	if ch.Chance("workload", 1, 4) {
		runC06Receipts(rc)
		return
	}
	opts := E2Opts{S2S: ch.Chance("workload", 1, 6), Chunk: ch.Chance("workload", 1, 2)}
	if !opts.S2S {
		// a component's session (XEP-0114, content namespace jabber:component:accept)
		opts.Comp = ch.Chance("workload", 1, 5)
	}
	strat := rc.S.ConfigureStrategy()
	e := rc.NewE2(opts)
	if e == nil {
		return
	}
	if ch.Chance("workload", 1, 3) {
		rc.S.PausePerm = 10
	}
	// a sixth of the runs: the transport refuses a write (once, or from then on) while requests are on their way out
	wf := ch.Chance("faults", 1, 6)
	if wf {
		rc.S.PausePerm = 0
		e.SUT.WriteErrAt, e.SUT.WriteErr, e.SUT.WritePartial, e.SUT.WriteErrOnce = e.SUT.Writes+ch.Range("faults", 1, 5), simnet.ErrInjected, ch.Int("faults", 60), ch.Chance("faults", 1, 2)
	}
	nReq := ch.Range("workload", 1, 4)
	var calls []*reqCall
	n := 0
	var plans [][]*reqCall
	for i := 0; i < nReq; i++ {
		k := ch.Range("workload", 1, 3)
		var pl []*reqCall
		for j := 0; j < k; j++ {
			n++
			c := &reqCall{kind: reqKinds[ch.Int("workload", len(reqKinds))], id: fmt.Sprintf("q%d%s", n, strings.Repeat("y", n%2)) + c06IDTail(ch),
				timeout: []time.Duration{50 * time.Millisecond, 300 * time.Millisecond, time.Second, 4 * time.Second}[ch.Int("workload", 4)], readProg: ch.Int("workload", 3)}
			c.stanza = "iq"
			if c.kind == "SendMessage" {
				c.stanza = "message"
			} else if c.kind == "SendPresence" {
				c.stanza = "presence"
			}
			if ch.Chance("workload", 1, 4) {
				c.cancelAt = time.Duration(ch.Range("workload", 0, 20)) * 20 * time.Millisecond
			}
			if c.stanza == "iq" && ch.Chance("workload", 1, 3) {
				c.qualNS = e.NS
			}
			if ch.Chance("workload", 1, 5) {
				c.idMode = 1 + ch.Int("workload", 2)
				rc.Fire("library-chosen-id")
			}
			if c.readProg > 0 && ch.Chance("workload", 1, 4) {
				c.hold = []time.Duration{time.Millisecond, 10 * time.Millisecond, 40 * time.Millisecond}[ch.Int("workload", 3)]
			}
			if wf {
				// the write-fault configuration: nobody gives up for three minutes, so that a serve loop that waits for a
				// caller which has long returned with a write error shows as a stall; requests take several writes
				c.timeout, c.cancelAt = 3*time.Minute, 0
				if (c.kind == "SendIQ" || c.kind == "SendIQElement" || c.kind == "SendMessage" || c.kind == "SendPresence") && ch.Chance("workload", 2, 3) {
					c.pad = ch.Range("workload", 4200, 12000)
				}
			}
			pl = append(pl, c)
			calls = append(calls, c)
		}
		plans = append(plans, pl)
	}
	rc.Describe("strategy=%s s2s=%v ws=%v component=%v chunk=%v pause=%d requesters=%d", strat, opts.S2S, opts.WS, opts.Comp, opts.Chunk, rc.S.PausePerm, nReq)
	for _, c := range calls {
		rc.Describe("%s id=%s timeout=%v cancelAt=%v read=%d", c.kind, c.id, c.timeout, c.cancelAt, c.readProg)
	}

	// handler log: every stanza that reaches the handler, with its marker
	type seen struct {
		name, id, typ, marker string
		at                    time.Duration
		step                  int
	}
	var handled []seen
	sentinelSeen := false
	handler := xmpp.HandlerFunc(func(t xmlstream.TokenReadEncoder, start *xml.StartElement) error {
		el := Elem{Start: *start}
		s := seen{name: start.Name.Local, id: el.Attr("id"), typ: el.Attr("type"), marker: el.Attr("m"), at: rc.S.Now(), step: rc.S.Steps}
		for {
			tok, err := t.Token()
			if err != nil {
				break
			}
			switch x := tok.(type) {
			case xml.StartElement:
				for _, a := range x.Attr {
					if a.Name.Local == "m" {
						s.marker = a.Value
					}
				}
			case xml.CharData:
				if m := markerRe.FindString(string(x)); m != "" {
					s.marker = m
				}
			}
		}
		if s.id == "sentinel" {
			sentinelSeen = true
		}
		handled = append(handled, s)
		return nil
	})
	e.Serve(handler)

	if !wf && ch.Chance("workload", 1, 5) {
		// the application moves the session's close deadline (far into the future: it never passes in this run) while
		// requests are under way, also while a caller holds a response: nothing may change for anybody
		k := ch.Range("workload", 1, 3)
		gap := []time.Duration{0, time.Millisecond, 5 * time.Millisecond, 20 * time.Millisecond, 100 * time.Millisecond}[ch.Int("workload", 5)]
		rc.Fire("close-deadline-moved")
		rc.Spawn("deadline-setter", func() {
			for i := 0; i < k; i++ {
				simrt.Sleep(gap)
				e.Sess.SetCloseDeadline(time.Now().Add(time.Duration(2+i) * time.Hour))
			}
		})
	}
	var reqTasks []*simrt.Task
	for i, pl := range plans {
		pl := pl
		reqTasks = append(reqTasks, rc.Spawn(fmt.Sprintf("req%d", i), func() {
			for _, c := range pl {
				c := c
				ctx, cancel := context.WithTimeout(e.Ctx, c.timeout)
				c.ctxEndAt = rc.S.Now() + c.timeout
				if c.cancelAt > 0 {
					rc.Spawn("canceller", func() {
						simrt.Sleep(c.cancelAt)
						rc.Fire("cancel")
						if !c.done && rc.S.Now() < c.ctxEndAt {
							c.ctxEndAt = rc.S.Now()
						}
						cancel()
					})
				}
				doReq(ctx, e.Sess, c)
				c.returns++
				c.done, c.ctxErr, c.retStep = true, ctx.Err(), rc.S.Steps
				if wf {
					// an application that uses one long-lived context for all its requests: nothing ends when a call returns
					rc.OnCleanup(cancel)
				} else {
					simrt.Settle(cancel, "h:cancel")
				}
			}
		}))
	}

	// scripted answering peer
	var replies []*peerReply
	mk := 0
	newReply := func(id, name, typ string) *peerReply {
		mk++
		p := &peerReply{marker: fmt.Sprintf("R%dx", mk), id: id, name: name, typ: typ}
		if typ == "result" && ch.Chance("peer", 1, 6) {
			p.empty = true
			rc.Fire("empty-result")
		}
		replies = append(replies, p)
		return p
	}
	sendLater := func(p *peerReply, d time.Duration) {
		rc.Spawn("peer-send", func() {
			if d > 0 {
				simrt.Sleep(d)
			}
			e.PeerWrite(replyXML(p))
			p.sent, p.sentAt = true, rc.S.Steps
		})
	}
	delays := []time.Duration{0, 0, 0, 5 * time.Millisecond, 100 * time.Millisecond, 700 * time.Millisecond, 2 * time.Second, 6 * time.Second}
	peer := rc.Spawn("peer", func() {
		d := xml.NewDecoder(e.Peer)
		depth := 0
		curID := ""
		for {
			tok, err := d.Token()
			if err != nil {
				return
			}
			switch t := tok.(type) {
			case xml.StartElement:
				depth++
				if depth == 3 && t.Name.Local == "q" {
					// a request that left the choice of its id to the library: from now on the call is known by the id on the wire
					n := (Elem{Start: t}).Attr("n")
					for _, c := range calls {
						if c.idMode != 0 && c.nAttr == n && c.id == n {
							c.id = curID
						}
					}
				}
				if depth != 2 {
					continue
				}
				el := Elem{Start: t}
				id, name := el.Attr("id"), t.Name.Local
				curID = id
				typ := "result"
				if ch.Chance("peer", 1, 3) || name != "iq" {
					typ = "error"
				}
				switch ch.Int("peer", 8) {
				case 0:
					rc.Fire("peer-drop")
				case 1:
					rc.Fire("peer-dup")
					sendLater(newReply(id, name, typ), delays[ch.Int("peer", len(delays))])
					sendLater(newReply(id, name, typ), delays[ch.Int("peer", len(delays))])
				case 2:
					rc.Fire("peer-wrong-kind")
					other := "message"
					if name == "message" {
						other = "iq"
					}
					sendLater(newReply(id, other, "error"), delays[ch.Int("peer", len(delays))])
					if ch.Chance("peer", 1, 2) {
						sendLater(newReply(id, name, typ), delays[ch.Int("peer", len(delays))])
					}
				case 3:
					rc.Fire("peer-unknown-id")
					p := newReply("unk"+id, name, typ)
					p.unknown = true
					sendLater(p, 0)
					sendLater(newReply(id, name, typ), delays[ch.Int("peer", len(delays))])
				default:
					dl := delays[ch.Int("peer", len(delays))]
					if dl > 0 {
						rc.Fire("peer-delay")
					}
					sendLater(newReply(id, name, typ), dl)
				}
			case xml.EndElement:
				depth--
			}
		}
	})
	peer.Daemon = true

	allDone := func() bool {
		for _, t := range reqTasks {
			if !t.Done() {
				return false
			}
		}
		return true
	}
	st := rc.S.Run(allDone, 60000, 10*time.Minute)
	if st != simrt.CondMet {
		// c1: a call that never returns although its context has a deadline
		for _, c := range calls {
			if !c.done {
				rc.Failf("C06.c1", "call-never-returned:"+c.kind, "%s id=%s (timeout %v) has not returned: status %v, stuck %v", c.kind, c.id, c.timeout, st, rc.S.Stuck())
				break
			}
		}
	}
	// let outstanding delayed replies go out, then the sentinel
	rc.S.PausePerm = 0
	allSent := func() bool {
		for _, p := range replies {
			if !p.sent {
				return false
			}
		}
		return true
	}
	peerIdle := func() bool {
		out := e.SUT.Out()
		return out.Delivered == len(out.Tap) && strings.HasPrefix(peer.Site, "read:")
	}
	rc.S.Run(func() bool { return peerIdle() && allSent() }, 20000, time.Minute)
	sent := rc.Spawn("peer-sentinel", func() { e.PeerWrite(`<message id="sentinel" from="example.net"/>`) })
	_ = sent
	st2 := rc.S.Run(func() bool { return sentinelSeen }, 20000, time.Minute)
	// c4: serve loop not stalled
	rc.Check("C06.c4", "sentinel-not-handled", sentinelSeen, "a stanza sent after all calls returned never reached the handler (serve loop stalled): status %v, stuck %v", st2, rc.S.Stuck())

	// ---- c1/c2/c3 over the history ----
	byMarker := map[string]*peerReply{}
	for _, p := range replies {
		byMarker[p.marker] = p
	}
	observed := map[string][]string{} // marker -> observers
	for _, c := range calls {
		if !c.done {
			continue
		}
		rc.Evals["C06.c1"]++
		if c.returns != 1 {
			rc.Failf("C06.c1", "returns!=1:"+c.kind, "%s id=%s returned %d times", c.kind, c.id, c.returns)
		}
		if c.err != nil && wf && errors.Is(c.err, simnet.ErrInjected) {
			continue // the transport refused the request: the call reports that
		}
		if c.err != nil {
			if c.ctxErr == nil || !errors.Is(c.err, c.ctxErr) {
				// a specific history gets a signature of its own: the call came back with the connection's deadline error
				// and a context of this or of an earlier transmit call had ended by then. The library enforces a context
				// on a write by setting the connection's write deadline into the past and clearing it again; a write that
				// falls between the two statements fails, and the session's buffered encoder keeps that error for good.
				ended := c.ctxErr != nil
				for _, d := range calls {
					ended = ended || (d.done && d.ctxErr != nil && errors.Is(d.err, os.ErrDeadlineExceeded))
				}
				if errors.Is(c.err, os.ErrDeadlineExceeded) && ended {
					rc.Failf("C06.c1", "write-deadline-error-after-ended-context", "%s id=%s returned %v (its context error: %v): a write fell into the window in which the write deadline that enforces an ended context was set and not yet cleared - or came after such a write, whose error the session's encoder keeps", c.kind, c.id, c.err, c.ctxErr)
				} else {
					rc.Failf("C06.c1", "error-not-ctx:"+c.kind, "%s id=%s returned %v but its context error is %v", c.kind, c.id, c.err, c.ctxErr)
				}
			}
			continue
		}
		// a reply was delivered
		if c.idMode != 0 && c.gotID == c.nAttr && (strings.HasPrefix(c.kind, "Unmarshal") || strings.HasPrefix(c.kind, "Iter")) {
			c.gotID = c.id // these helpers hand out no id: doReq filled in the call's name at that moment
		}
		if c.readProg == 2 && c.gotMarker == "" && c.gotName == c.stanza && (c.kind == "SendIQ" || c.kind == "SendIQElement" || c.kind == "EncodeIQ" || c.kind == "EncodeIQElement" || c.kind == "SendMessage" || c.kind == "SendPresence") {
			rc.Failf("C06.c1", "response-truncated:"+c.kind, "%s id=%s read its response <%s type=%q> to the end and did not find the content the peer had put into it (every reply carries a marker)", c.kind, c.id, c.gotName, c.gotType)
		}
		if c.gotName != c.stanza || c.gotID != c.id || (c.gotType != "result" && c.gotType != "error") {
			rc.Failf("C06.c1", "wrong-reply:"+c.kind, "%s id=%s received <%s id=%q type=%q> as its reply", c.kind, c.id, c.gotName, c.gotID, c.gotType)
		}
		if c.gotMarker != "" {
			p := byMarker[c.gotMarker]
			if p == nil || p.id != c.id || p.name != c.stanza {
				rc.Failf("C06.c2", "foreign-reply:"+c.kind, "%s id=%s observed marker %s which the peer sent as %+v", c.kind, c.id, c.gotMarker, p)
			}
			observed[c.gotMarker] = append(observed[c.gotMarker], "caller:"+c.id)
		}
	}
	for _, h := range handled {
		if h.marker != "" {
			observed[h.marker] = append(observed[h.marker], "handler")
		}
		// c1, "or with its context's error if that comes first": a proper reply that the serve loop gave to the handler
		// while its caller had not returned and the caller's context had not ended should have gone to the caller
		p := byMarker[h.marker]
		if p == nil || p.unknown || (p.typ != "result" && p.typ != "error") {
			continue
		}
		for _, c := range calls {
			if c.id != p.id || c.stanza != p.name || !c.done || c.err == nil {
				continue
			}
			rc.Evals["C06.c1"]++
			if wf && errors.Is(c.err, simnet.ErrInjected) {
				continue // the call had failed with the transport's error and was on its way out
			}
			if h.step < c.retStep && h.at < c.ctxEndAt {
				rc.Failf("C06.c1", "reply-to-handler-while-caller-waits:"+c.kind, "%s id=%s returned %v at step %d, but its reply %s <%s type=%s> had reached the handler at step %d, t=%v, while the call was waiting and its context had not ended (it ended at t=%v)", c.kind, c.id, c.err, c.retStep, p.marker, p.name, p.typ, h.step, h.at, c.ctxEndAt)
			}
		}
	}
	if sentinelSeen {
		for _, p := range replies {
			if !p.sent {
				continue
			}
			obs := observed[p.marker]
			rc.Evals["C06.c2"]++
			if len(obs) > 1 {
				rc.Failf("C06.c2", "reply-observed-twice", "reply %s (id %s) was observed by %v", p.marker, p.id, obs)
			}
			if len(obs) == 0 {
				// a caller that closed the response without reading it saw the reply but not the marker
				taken := false
				for _, c := range calls {
					if c.done && c.err == nil && c.id == p.id && c.stanza == p.name && c.gotMarker == "" {
						taken = true
					}
				}
				rc.Evals["C06.c3"]++
				if !taken {
					rc.Failf("C06.c3", "reply-lost:"+p.name, "reply %s <%s id=%s type=%s> sent at step %d was observed neither by a caller nor by the handler", p.marker, p.name, p.id, p.typ, p.sentAt)
				}
			}
			if p.unknown {
				rc.Check("C06.c3", "unknown-id-not-to-handler", len(obs) == 1 && obs[0] == "handler", "reply %s with unknown id %s observed by %v, want the handler", p.marker, p.id, obs)
			}
		}
	}
	// wind down: peer closes, Serve returns
	rc.Spawn("peer-close", func() { io.WriteString(e.Peer, closeTag) })
	rc.S.Run(func() bool { return e.ServeDone }, 20000, time.Minute)
	stuck := rc.Teardown()
	rc.CheckPanics("C06.c5")
	rc.Check("C06.c6", "stuck-after-teardown", len(stuck) == 0, "tasks still blocked after teardown: %v", stuck)
}

// runC06Receipts: the delivery-receipt helper blocks on a correlated reply as well.
func runC06Receipts(rc *RC) {
	ch := rc.Ch
	strat := rc.S.ConfigureStrategy()
	e := rc.NewE2(E2Opts{Chunk: ch.Chance("workload", 1, 2)})
	if e == nil {
		return
	}
	if ch.Chance("workload", 1, 3) {
		rc.S.PausePerm = 10
	}
	var unhandled []string
	type uhAt struct {
		at   time.Duration
		step int
	}
	unhandledAt := map[string]uhAt{}
	rh := &receipts.Handler{Unhandled: func(id string) {
		unhandled = append(unhandled, id)
		if _, ok := unhandledAt[id]; !ok {
			unhandledAt[id] = uhAt{rc.S.Now(), rc.S.Steps}
		}
	}}
	sentinel := false
	m := mux.New(e.NS, receipts.Handle(rh), mux.MessageFunc(stanza.ChatMessage, xml.Name{Local: "body"}, func(msg stanza.Message, t xmlstream.TokenReadEncoder) error {
		if msg.ID == "sentinel" {
			sentinel = true
		}
		return nil
	}))
	e.Serve(m)
	type rcall struct {
		id       string
		timeout  time.Duration
		cancelAt time.Duration
		err      error
		ctxErr   error
		done     bool
		retStep  int
		ackStep  int // step at which the peer wrote the first receipt for this id (-1: never)
		startAt  time.Duration
		endAt    time.Duration // when the call's context ended or will end
		acks     int           // receipts the peer sends for this id
	}
	var calls []*rcall
	n := ch.Range("workload", 1, 4)
	// a fifth of the runs: the peer's receipts share their message with other payloads - a body, the peer's own request
	// for a receipt (in front of <received/> or behind it). The callers are patient (contexts that outlive the run) and the
	// peer acknowledges every message exactly once: every call returns nil.
	patient := ch.Chance("workload", 1, 5)
	for i := 0; i < n; i++ {
		c := &rcall{id: fmt.Sprintf("m%d", i) + c06IDTail(ch), timeout: []time.Duration{30 * time.Millisecond, 300 * time.Millisecond, 2 * time.Second}[ch.Int("workload", 3)], ackStep: -1}
		if ch.Chance("workload", 1, 3) {
			c.cancelAt = time.Duration(ch.Range("workload", 0, 20)) * 10 * time.Millisecond
		}
		if patient {
			c.timeout, c.cancelAt = 30*time.Minute, 0
		}
		calls = append(calls, c)
	}
	if patient {
		rc.Fire("receipts-with-siblings")
	}
	rc.Describe("receipts strategy=%s n=%d pause=%d", strat, n, rc.S.PausePerm)
	for _, c := range calls {
		rc.Describe("SendMessageElement id=%s timeout=%v cancelAt=%v", c.id, c.timeout, c.cancelAt)
	}
	rc.CaseKey = "receipts"
	byID := map[string]*rcall{}
	var tasks []*simrt.Task
	for _, c := range calls {
		c := c
		byID[c.id] = c
		tasks = append(tasks, rc.Spawn("req-"+c.id, func() {
			ctx, cancel := context.WithTimeout(e.Ctx, c.timeout)
			defer simrt.Settle(cancel, "h:cancel")
			c.startAt = rc.S.Now()
			c.endAt = c.startAt + c.timeout
			if c.cancelAt > 0 {
				rc.Spawn("canceller", func() {
					simrt.Sleep(c.cancelAt)
					rc.Fire("cancel")
					if now := rc.S.Now(); now < c.endAt {
						c.endAt = now
					}
					cancel()
				})
			}
			c.err = rh.SendMessageElement(ctx, e.Sess, xmlstream.Wrap(xmlstream.Token(xml.CharData("hi")), xml.StartElement{Name: xml.Name{Local: "body"}}),
				stanza.Message{ID: c.id, Type: stanza.ChatMessage, To: jid.MustParse("peer@example.net")})
			c.done, c.ctxErr, c.retStep = true, ctx.Err(), rc.S.Steps
		}))
	}
	delays := []time.Duration{0, 0, 0, 10 * time.Millisecond, 100 * time.Millisecond, time.Second, 4 * time.Second}
	pending := 0
	peer := rc.Spawn("peer", func() {
		d := xml.NewDecoder(e.Peer)
		depth := 0
		for {
			tok, err := d.Token()
			if err != nil {
				return
			}
			switch t := tok.(type) {
			case xml.StartElement:
				depth++
				if depth != 2 || t.Name.Local != "message" {
					continue
				}
				id := (Elem{Start: t}).Attr("id")
				c := byID[id]
				if c == nil {
					continue
				}
				times := 1
				switch ch.Int("peer", 6) {
				case 0:
					if !patient {
						rc.Fire("peer-drop")
						times = 0
					}
				case 1:
					if !patient {
						rc.Fire("peer-dup")
						times = 2
					}
				}
				before, after, idAttr := "", "", ""
				if patient {
					sib := []string{"", `<body>got it</body>`, `<request xmlns="urn:xmpp:receipts"/>`, `<thread>t1</thread>`}
					before, after = sib[ch.Int("peer", len(sib))], sib[ch.Int("peer", len(sib))]
					if before == after {
						after = ""
					}
					idAttr = fmt.Sprintf(` id="pm%d"`, ch.Int("peer", 1000))
				}
				c.acks += times
				for k := 0; k < times; k++ {
					dl := delays[ch.Int("peer", len(delays))]
					pending++
					rc.Spawn("peer-ack", func() {
						if dl > 0 {
							simrt.Sleep(dl)
						}
						if c.ackStep < 0 {
							c.ackStep = rc.S.Steps
						}
						e.PeerWrite(fmt.Sprintf(`<message from="peer@example.net/r"%s>%s<received xmlns="urn:xmpp:receipts" id="%s"/>%s</message>`, idAttr, before, escText(id), after))
						pending--
					})
				}
			case xml.EndElement:
				depth--
			}
		}
	})
	peer.Daemon = true
	allDone := func() bool {
		for _, t := range tasks {
			if !t.Done() {
				return false
			}
		}
		return true
	}
	st := rc.S.Run(allDone, 60000, 10*time.Minute)
	rc.S.PausePerm = 0
	rc.S.Run(func() bool { return pending == 0 && strings.HasPrefix(peer.Site, "read:") }, 20000, time.Minute)
	rc.Spawn("peer-sentinel", func() {
		e.PeerWrite(`<message id="sentinel" type="chat" from="peer@example.net/r"><body>s</body></message>`)
	})
	st2 := rc.S.Run(func() bool { return sentinel }, 20000, time.Minute)
	for _, c := range calls {
		rc.Evals["C06.c1"]++
		if !c.done {
			rc.Failf("C06.c1", "call-never-returned:receipts.SendMessageElement", "receipts.SendMessageElement id=%s (timeout %v) has not returned: %v stuck %v", c.id, c.timeout, st, rc.S.Stuck())
			continue
		}
		if c.err == nil {
			if c.ackStep < 0 || c.ackStep > c.retStep {
				rc.Failf("C06.c1", "receipt-not-sent:receipts.SendMessageElement", "SendMessageElement id=%s returned nil at step %d but no receipt for that id had been sent (first at %d)", c.id, c.retStep, c.ackStep)
			}
		} else if ended := func() bool {
			e := c.ctxErr != nil
			for _, d := range calls {
				e = e || (d.done && d.ctxErr != nil && errors.Is(d.err, os.ErrDeadlineExceeded))
			}
			return e
		}(); (c.ctxErr == nil || !errors.Is(c.err, c.ctxErr)) && errors.Is(c.err, os.ErrDeadlineExceeded) && ended {
			rc.Failf("C06.c1", "write-deadline-error-after-ended-context", "receipts.SendMessageElement id=%s returned %v (its context error: %v): a write fell into the window in which the write deadline that enforces an ended context was set and not yet cleared - or came after such a write, whose error the session's encoder keeps", c.id, c.err, c.ctxErr)
		} else if c.ctxErr == nil || !errors.Is(c.err, c.ctxErr) {
			rc.Failf("C06.c1", "error-not-ctx:receipts.SendMessageElement", "SendMessageElement id=%s returned %v but its context error is %v", c.id, c.err, c.ctxErr)
		} else if u, ok := unhandledAt[c.id]; ok && c.acks == 1 && u.step < c.retStep && u.at < c.endAt {
			// "or with its context's error if that comes first": the only receipt was there first, and nobody else could
			// take it (with two receipts the second one goes to Unhandled by design)
			rc.Failf("C06.c1", "receipt-unhandled-while-caller-waits:receipts.SendMessageElement", "SendMessageElement id=%s returned %v at step %d, but the receipt for that id had been given to Unhandled at step %d, t=%v, while the call was waiting and its context had not ended (it ended at t=%v)", c.id, c.err, c.retStep, u.step, u.at, c.endAt)
		}
	}
	rc.Check("C06.c4", "sentinel-not-handled:receipts", sentinel, "a message sent after all receipt waits ended never reached its handler (serve loop stalled): %v stuck %v", st2, rc.S.Stuck())
	rc.Spawn("peer-close", func() { io.WriteString(e.Peer, closeTag) })
	rc.S.Run(func() bool { return e.ServeDone }, 20000, time.Minute)
	stuck := rc.Teardown()
	rc.CheckPanics("C06.c5")
	rc.Check("C06.c6", "stuck-after-teardown", len(stuck) == 0, "tasks still blocked after teardown: %v", stuck)
}
