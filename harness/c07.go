package harness

import (
	"os"
	"net"
	"context"
	"encoding/xml"
	"fmt"
	"io"
	"strings"
	"time"

	"mellium.im/xmlstream"
	"mellium.im/xmpp"
	"mellium.im/xmpp/mux"
	"mellium.im/xmpp/stanza"
	"verif.sim/simrt"
	"verif.sim/simrt/simnet"
)

// C07 — every incoming get/set IQ is answered exactly once; replies are never answered.

func init() { register(&Scenario{ID: "C07", Run: runC07}) }

type c07In struct {
	idx     int
	kind    string // iq / message / presence
	typ     string
	id      string
	from    string
	payload string // q (registered with the mux variant) or z (unregistered)
	xml     string
	invoked bool
	prog    int
	wrote   bool // the handler program wrote a matching top-level reply
	hErr    bool
	collide bool
	decoy   bool
	empty   bool
	otherNS bool
}

var c07Progs = []string{"bogus-type-same-id", "nothing", "reply-result", "reply-error", "reply-emptyns", "other-id", "get-same-id", "set-same-id", "msg-then-reply", "reply-then-msg", "nested-iq", "presence-then-error-reply", "message-same-id-ns", "presence-same-id-ns", "reply-result", "reply-error"}

func el(space, local string, attrs ...string) xml.StartElement {
	st := xml.StartElement{Name: xml.Name{Space: space, Local: local}}
	for i := 0; i+1 < len(attrs); i += 2 {
		st.Attr = append(st.Attr, xml.Attr{Name: xml.Name{Local: attrs[i]}, Value: attrs[i+1]})
	}
	return st
}

func runC07(rc *RC) {
	ch := rc.Ch
	opts := E2Opts{Chunk: ch.Chance("workload", 1, 2), S2S: ch.Chance("workload", 1, 4)}
	if !opts.S2S && ch.Chance("workload", 1, 4) {
		opts.WS = true
	}
	if !opts.S2S && !opts.WS && ch.Chance("workload", 1, 5) {
		opts.Comp = true // a component's session (content namespace jabber:component:accept)
	}
	strat := rc.S.ConfigureStrategy()
	e := rc.NewE2(opts)
	if e == nil {
		return
	}
	// the fault-injecting configuration: from its k-th Write on the transport refuses everything it is given (once, or
	// for good). A reply may then be lost, but only together with Serve ending in an error: a Serve that carries on
	// as if nothing happened leaves a request without its reply.
	wf := ch.Chance("faults", 1, 5)
	if wf {
		e.SUT.WriteErrAt, e.SUT.WriteErr, e.SUT.WritePartial, e.SUT.WriteErrOnce = e.SUT.Writes+ch.Range("faults", 1, 8), simnet.ErrInjected, 0, ch.Chance("faults", 1, 2)
	}
	variant := ch.Int("workload", 3) // 0 plain handler, 1 mux with registered IQ handlers, 2 mux without handlers
	nIn := ch.Range("workload", 1, 12)
	withRequester := ch.Chance("workload", 1, 3)
	var ins []*c07In
	for i := 0; i < nIn; i++ {
		in := &c07In{idx: i, id: fmt.Sprintf("i%d", i), payload: "q"}
		switch k := ch.Int("workload", 10); {
		case k < 6:
			in.kind = "iq"
			in.typ = []string{"get", "set", "get", "set", "result", "error"}[ch.Int("workload", 6)]
		case k < 8:
			in.kind, in.typ = "message", []string{"chat", "normal", "error", "get", "set"}[ch.Int("workload", 5)]
		default:
			in.kind, in.typ = []string{"presence", "presence", "ctl"}[ch.Int("workload", 3)], []string{"", "unavailable", "error", "get", "set"}[ch.Int("workload", 5)]
		}
		if ch.Chance("workload", 1, 8) {
			in.id = ""
		} else {
			in.id += c06IDTail(ch) // ids are opaque: characters that need escaping, spaces, non-ASCII text
		}
		if ch.Chance("workload", 1, 2) {
			// another entity, another resource of our own account, or our own account's bare address
			in.from = []string{"other@example.net/r", "other@example.net/r", e.Local.Bare().String() + "/laptop", "example.net"}[ch.Int("workload", 4)]
			if ch.Chance("workload", 1, 12) {
				// not an address at all: no reply can be addressed, so the only way out is a stream error (c4)
				in.from = []string{"@example.org/x", "a@/x", "a@b@c"}[ch.Int("workload", 3)]
			}
		}
		if ch.Chance("workload", 1, 3) {
			in.payload = "z"
		}
		if withRequester && in.kind == "iq" && (in.typ == "get" || in.typ == "set") && ch.Chance("workload", 1, 3) {
			in.collide, in.id = true, "r1"
			withRequester = false // one collision per run
			defer func() {}()
		}
		var sb strings.Builder
		fmt.Fprintf(&sb, "<%s", in.kind)
		// the attributes, written in a drawn order
		var attrs []string
		if in.kind == "ctl" {
			attrs = append(attrs, ` xmlns="urn:verif:nonza"`) // a foreign-namespace top-level element
		} else if opts.WS {
			attrs = append(attrs, ` xmlns="jabber:client"`)
		} else if in.kind == "iq" && !opts.Comp && ch.Chance("workload", 1, 8) {
			// an IQ that declares the other of the two core namespaces (jabber:client on a server-to-server stream and
			// the other way round): the session still answers it, and to its sender
			other := "jabber:server"
			if opts.S2S {
				other = "jabber:client"
			}
			attrs = append(attrs, ` xmlns="`+other+`"`)
			in.otherNS = true
		}
		if in.typ != "" {
			attrs = append(attrs, fmt.Sprintf(` type="%s"`, in.typ))
		}
		if in.id != "" {
			attrs = append(attrs, fmt.Sprintf(` id="%s"`, escText(in.id)))
		}
		if in.from != "" {
			attrs = append(attrs, fmt.Sprintf(` from="%s"`, in.from))
		}
		if ch.Chance("workload", 1, 3) {
			attrs = append(attrs, ` to="me@example.net/sut"`)
		}
		if ch.Chance("workload", 1, 5) {
			// extension attributes in a foreign namespace named like the stanza's own attributes: they mean nothing,
			// wherever they stand (also xml:id, and a namespace prefix that happens to be called id)
			in.decoy = true
			attrs = append(attrs, ` xmlns:x="urn:verif:x"`)
			for _, d := range [][2]string{{"x:from", "mallory@example.org/m"}, {"x:type", []string{"get", "set", "result"}[ch.Int("workload", 3)]}, {"x:id", "decoy-id"}, {"x:to", "nobody@example.org"}, {"xml:id", "decoy-xml-id"}, {"xmlns:id", "urn:verif:decoy"}, {"xmlns:type", "result"}} {
				if ch.Chance("workload", 1, 2) {
					attrs = append(attrs, fmt.Sprintf(` %s="%s"`, d[0], d[1]))
				}
			}
		}
		if ch.Chance("workload", 1, 2) {
			for i := len(attrs) - 1; i > 0; i-- {
				k := ch.Int("workload", i+1)
				attrs[i], attrs[k] = attrs[k], attrs[i]
			}
		}
		sb.WriteString(strings.Join(attrs, ""))
		if in.kind == "iq" && ch.Chance("workload", 1, 10) {
			// an IQ without any payload (not valid for get/set, but it is what arrived and it has an id)
			in.empty = true
			if ch.Chance("workload", 1, 2) {
				sb.WriteString("/>")
			} else {
				fmt.Fprintf(&sb, "></%s>", in.kind)
			}
		} else {
			fmt.Fprintf(&sb, `><%s xmlns="urn:verif" n="%d"><c/>text</%s></%s>`, in.payload, i, in.payload, in.kind)
		}
		in.xml = sb.String()
		ins = append(ins, in)
	}
	hasCollide := false
	for _, in := range ins {
		hasCollide = hasCollide || in.collide
	}
	rc.Describe("strategy=%s s2s=%v ws=%v chunk=%v variant=%d n=%d collide=%v writefault=%v at=%d once=%v", strat, opts.S2S, opts.WS, opts.Chunk, variant, nIn, hasCollide, wf, e.SUT.WriteErrAt, e.SUT.WriteErrOnce)
	for _, in := range ins {
		rc.Describe("%s", in.xml)
	}
	rc.CaseKey = fmt.Sprint(variant, hasCollide, opts.S2S, opts.WS, opts.Comp, wf)
	byIdx := func(start *xml.StartElement, r xml.TokenReader) *c07In {
		// the payload's n attribute identifies the stanza even without an id
		for {
			tok, err := r.Token()
			if err != nil {
				return nil
			}
			if st, ok := tok.(xml.StartElement); ok {
				for _, a := range st.Attr {
					if a.Name.Local == "n" {
						var k int
						fmt.Sscan(a.Value, &k)
						if k >= 0 && k < len(ins) {
							return ins[k]
						}
					}
				}
				return nil
			}
		}
	}
	errAt := -1
	program := func(in *c07In, t xmlstream.TokenReadEncoder, parsed *stanza.IQ) error {
		in.invoked = true
		in.prog = ch.Int("handler", len(c07Progs))
		rd := ch.Int("handler", 3)
		for i := 0; rd == 2 || (rd == 1 && i < 2); i++ {
			if _, err := t.Token(); err != nil {
				break
			}
		}
		ns := ""
		if ch.Chance("handler", 1, 2) {
			ns = e.NS
		}
		marker := fmt.Sprintf("H%d", in.idx)
		h := xmlstream.Wrap(nil, el("urn:verif", "h", "m", marker))
		viaParsed := parsed != nil && ch.Chance("handler", 1, 2)
		reply := func(typ, id string) xml.TokenReader {
			if viaParsed && id == in.id && (typ == "result" || typ == "error") {
				// the way extension handlers answer: from the IQ value the multiplexer parsed
				if typ == "result" {
					return parsed.Result(h)
				}
				return stanza.IQ{ID: parsed.ID, To: parsed.From, Type: stanza.ErrorIQ}.Wrap(h)
			}
			return xmlstream.Wrap(h, el(ns, "iq", "type", typ, "id", id, "to", in.from))
		}
		msg := xmlstream.Wrap(xmlstream.Wrap(xmlstream.Token(xml.CharData("hi")), el("", "body")), el("", "message", "to", "x@example.net"))
		var parts []xml.TokenReader
		switch c07Progs[in.prog] {
		case "nothing":
		case "reply-result":
			parts, in.wrote = []xml.TokenReader{reply("result", in.id)}, true
		case "reply-error":
			parts, in.wrote = []xml.TokenReader{reply("error", in.id)}, true
		case "reply-emptyns":
			ns = ""
			parts, in.wrote = []xml.TokenReader{reply("result", in.id)}, true
		case "other-id":
			parts = []xml.TokenReader{reply("result", in.id+"-other")}
		case "bogus-type-same-id":
			// an iq with the request's id whose type is neither result nor error is no reply
			parts = []xml.TokenReader{xmlstream.Wrap(h, el(ns, "iq", "type", []string{"chat", "Result", "results", "ERROR", "unavailable"}[ch.Int("handler", 5)], "id", in.id, "to", in.from))}
		case "get-same-id":
			parts = []xml.TokenReader{reply("get", in.id)}
		case "set-same-id":
			parts = []xml.TokenReader{reply("set", in.id)}
		case "msg-then-reply":
			parts, in.wrote = []xml.TokenReader{msg, reply("result", in.id)}, true
		case "reply-then-msg":
			parts, in.wrote = []xml.TokenReader{reply("error", in.id), msg}, true
		case "message-same-id-ns":
			// a stanza of another kind in the stream's namespace that happens to carry the request's id is not a reply
			parts = []xml.TokenReader{xmlstream.Wrap(h, el(e.NS, "message", "type", []string{"chat", "error", "result"}[ch.Int("handler", 3)], "id", in.id, "to", in.from))}
		case "presence-same-id-ns":
			parts = []xml.TokenReader{xmlstream.Wrap(h, el(e.NS, "presence", "type", []string{"unavailable", "error", "result"}[ch.Int("handler", 3)], "id", in.id, "to", in.from))}
		case "nested-iq":
			parts = []xml.TokenReader{xmlstream.Wrap(reply("result", in.id), el("", "message", "to", "x@example.net"))}
		case "presence-then-error-reply":
			parts, in.wrote = []xml.TokenReader{xmlstream.Wrap(nil, el("", "presence")), xmlstream.Wrap(nil, el("", "presence", "type", "unavailable")), reply("error", in.id)}, true
		}
		how := ch.Int("handler", 3) // 0 token copy, 1 Encode(marshaler), 2 EncodeElement(payload, start)
		for _, p := range parts {
			var err error
			switch how {
			case 1:
				err = t.Encode(readerMarshaler{p})
			case 2:
				tok, _ := p.Token()
				st, ok := tok.(xml.StartElement)
				if !ok {
					continue
				}
				// EncodeElement ignores the start it is given (known C05 finding), so the value carries it as well
				err = t.EncodeElement(readerMarshaler{xmlstream.MultiReader(xmlstream.Token(st), p)}, st)
			default:
				_, err = xmlstream.Copy(t, p)
			}
			if err != nil && wf {
				in.hErr = true
				if errAt < 0 {
					errAt = in.idx
				}
				return err
			}
			if err != nil {
				rc.Infraf("handler write failed: %v", err)
			}
		}
		if ch.Chance("handler", 1, 14) {
			in.hErr = true
			if errAt < 0 {
				errAt = in.idx
			}
			switch ch.Int("handler", 6) {
			case 4, 5:
				// what a handler that relays to another session or connection returns when that one is gone: errors that
				// wrap the sentinels this session uses for its own streams and for its own shutdown
				sentinels := []error{xmpp.ErrOutputStreamClosed, xmpp.ErrInputStreamClosed, context.Canceled, context.DeadlineExceeded, net.ErrClosed, io.ErrUnexpectedEOF, io.ErrClosedPipe, os.ErrDeadlineExceeded}
				err := sentinels[ch.Int("handler", len(sentinels))]
				if ch.Chance("handler", 1, 2) {
					return err
				}
				return fmt.Errorf("relay to other session: %w", err)
			case 0:
				// what a handler that decodes its payload returns when the element ends early
				return fmt.Errorf("harness: decoding payload: %w", io.EOF)
			case 1:
				// a stanza error as the handler's verdict (whether or not it has written a reply of its own): the
				// documented consequence is that the stream ends with it
				return stanza.Error{Type: stanza.Cancel, Condition: stanza.ItemNotFound}
			case 2:
				return fmt.Errorf("harness: %w", stanza.Error{Type: stanza.Modify, Condition: stanza.BadRequest})
			}
			return errBoom
		}
		return nil
	}
	var handler xmpp.Handler
	plain := xmpp.HandlerFunc(func(t xmlstream.TokenReadEncoder, start *xml.StartElement) error {
		buf := []xml.Token{}
		// find the stanza by peeking at the payload, then replay what was read
		in := byIdx(start, tee{t, &buf})
		if in == nil {
			return nil
		}
		return program(in, struct {
			xml.TokenReader
			xmlstream.Encoder
		}{xmlstream.MultiReader(sliceReader(buf), t), t}, nil)
	})
	switch variant {
	case 0:
		handler = plain
	case 1:
		iqh := mux.IQHandlerFunc(func(iq stanza.IQ, t xmlstream.TokenReadEncoder, start *xml.StartElement) error {
			var k int
			for _, a := range start.Attr {
				if a.Name.Local == "n" {
					fmt.Sscan(a.Value, &k)
				}
			}
			if k < 0 || k >= len(ins) {
				return nil
			}
			return program(ins[k], t, &iq)
		})
		handler = mux.New(e.NS, mux.IQ(stanza.GetIQ, xml.Name{Space: "urn:verif", Local: "q"}, iqh), mux.IQ(stanza.SetIQ, xml.Name{Space: "urn:verif", Local: "q"}, iqh),
			mux.IQ(stanza.ResultIQ, xml.Name{Space: "urn:verif", Local: "q"}, iqh), mux.IQ(stanza.ErrorIQ, xml.Name{Space: "urn:verif", Local: "q"}, iqh))
	default:
		handler = mux.New(e.NS)
	}
	// every top-level element leads to exactly one invocation (C08), so the k-th invocation belongs to the k-th
	// incoming element: when Serve ends with an error the stream was terminated while handling that one
	invocations := 0
	inner := handler
	handler = xmpp.HandlerFunc(func(t xmlstream.TokenReadEncoder, start *xml.StartElement) error {
		invocations++
		return inner.HandleXMPP(t, start)
	})
	e.Serve(handler)

	var reqErr error
	reqDone := !hasCollide
	if hasCollide {
		rc.Spawn("requester", func() {
			ctx, cancel := context.WithTimeout(e.Ctx, 3*time.Second)
			defer simrt.Settle(cancel, "h:cancel")
			r, err := e.Sess.SendIQ(ctx, stanza.IQ{ID: "r1", Type: stanza.GetIQ}.Wrap(xmlstream.Wrap(nil, el("urn:verif", "ours"))))
			if r != nil {
				r.Close()
			}
			reqErr, reqDone = err, true
		})
	}
	peerDone := false
	rc.Spawn("peer", func() {
		for _, in := range ins {
			if in.collide {
				simrt.WaitUntil("wire:ours", func() bool { return reqDone || e.ServeDone || strings.Contains(string(e.SUT.Out().Tap), "<ours") })
			}
			e.PeerWrite(in.xml)
			if ch.Chance("workload", 1, 4) {
				simrt.Sleep(time.Duration(ch.Range("workload", 1, 30)) * time.Millisecond)
			}
		}
		if hasCollide {
			simrt.Sleep(200 * time.Millisecond)
			nsd := ""
			if opts.WS {
				nsd = ` xmlns="jabber:client"`
			}
			e.PeerWrite(`<iq` + nsd + ` type="result" id="r1"><done xmlns="urn:verif"/></iq>`)
		}
		simrt.Sleep(100 * time.Millisecond)
		e.PeerWrite(e.CloseTag())
		peerDone = true
	})
	st := rc.S.Run(func() bool { return e.ServeDone && peerDone && reqDone }, 60000, time.Minute)
	if !e.ServeDone {
		rc.Failf("C07.c1", "serve-not-returned", "Serve has not returned after the peer closed (status %v, stuck %v)", st, rc.S.Stuck())
	}
	_ = reqErr
	// ---- oracle over the wire ----
	w := e.ParseOut()
	if w.Err != nil {
		rc.Failf("C07.c1", "malformed-output", "output not well-formed: %v", w.Err)
	}
	type rep struct {
		auto    bool
		handler bool
		typ, to string
	}
	replies := map[string][]rep{}
	for _, x := range w.Elems {
		if x.Start.Name.Local != "iq" {
			continue
		}
		typ := x.Attr("type")
		if typ != "result" && typ != "error" {
			continue
		}
		r := rep{typ: typ, to: x.Attr("to")}
		for _, t := range x.Toks {
			if st, ok := t.(xml.StartElement); ok {
				if st.Name.Local == "service-unavailable" {
					r.auto = true
				}
				if st.Name.Local == "h" && st.Name.Space == "urn:verif" {
					r.handler = true
				}
			}
		}
		replies[x.Attr("id")] = append(replies[x.Attr("id")], r)
	}
	for _, in := range ins {
		if in.id == "" {
			continue
		}
		if errAt >= 0 && in.idx >= errAt {
			if in.idx == errAt {
				rc.Evals["C07.c4"]++
				rc.Check("C07.c4", "handler-error-did-not-end-serve", e.ServeDone && e.ServeErr != nil, "the handler returned an error on %s but Serve returned %v (done=%v): no reply and no stream error", in.xml, e.ServeErr, e.ServeDone)
			}
			continue // c4: the stream was terminated with a stream error
		}
		if e.ServeDone && e.ServeErr != nil && in.idx >= invocations-1 {
			continue // c4: Serve ended with an error (a stream error was sent) while handling this element or before reaching it
		}
		rs := replies[in.id]
		needs := in.kind == "iq" && (in.typ == "get" || in.typ == "set")
		prog := "mux-fallback"
		if in.invoked {
			prog = c07Progs[in.prog]
		}
		if needs {
			rc.Evals["C07.c1"]++
			if len(rs) != 1 {
				rc.Failf("C07.c1", fmt.Sprintf("reply-count=%d:%s", len(rs), prog), "incoming %s got %d replies %+v (handler program %s, variant %d, collide=%v)", in.xml, len(rs), rs, prog, variant, in.collide)
				continue
			}
			rc.Evals["C07.c2"]++
			r := rs[0]
			if in.wrote {
				if !r.handler || r.auto {
					rc.Failf("C07.c2", "not-handlers-reply:"+prog, "incoming %s: handler wrote its own reply (%s) but the wire carries %+v", in.xml, prog, r)
				} else if r.to != in.from {
					rc.Failf("C07.c1", "reply-misaddressed:handler", "incoming %s: the reply built from the parsed IQ is addressed to %q", in.xml, r.to)
				}
			} else {
				if !r.auto || r.typ != "error" {
					rc.Failf("C07.c2", "not-service-unavailable:"+prog, "incoming %s: handler wrote no matching reply (%s) but the wire carries %+v", in.xml, prog, r)
				} else if in.from != "" && r.to != in.from {
					rc.Failf("C07.c1", "reply-misaddressed", "incoming %s: automatic reply addressed to %q", in.xml, r.to)
				}
			}
		} else {
			rc.Evals["C07.c3"]++
			for _, r := range rs {
				if r.auto || !r.handler {
					rc.Failf("C07.c3", "auto-reply-to-non-request:"+in.kind+"/"+in.typ, "incoming %s triggered an automatic reply %+v", in.xml, r)
				}
			}
		}
	}
	stuck := rc.Teardown()
	rc.CheckPanics("C07.c1")
	rc.Check("C07.c1", "stuck-after-teardown", len(stuck) == 0, "tasks still blocked after teardown: %v", stuck)
}

type readerMarshaler struct{ r xml.TokenReader }

func (m readerMarshaler) TokenReader() xml.TokenReader { return m.r }

// tee records the tokens read through it.
type tee struct {
	r   xml.TokenReader
	buf *[]xml.Token
}

func (t tee) Token() (xml.Token, error) {
	tok, err := t.r.Token()
	if tok != nil {
		*t.buf = append(*t.buf, xml.CopyToken(tok))
	}
	return tok, err
}

type sliceTR struct {
	toks []xml.Token
}

func (s *sliceTR) Token() (xml.Token, error) {
	if len(s.toks) == 0 {
		return nil, nil
	}
	t := s.toks[0]
	s.toks = s.toks[1:]
	return t, nil
}

func sliceReader(toks []xml.Token) xml.TokenReader {
	rs := make([]xml.TokenReader, len(toks))
	for i, t := range toks {
		rs[i] = xmlstream.Token(t)
	}
	return xmlstream.MultiReader(rs...)
}
