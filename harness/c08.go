package harness

import (
	"bytes"
	"encoding/xml"
	"errors"
	"fmt"
	"io"
	"strings"
	"time"

	"mellium.im/xmlstream"
	"mellium.im/xmpp"
	"mellium.im/xmpp/stream"
	"verif.sim/simrt"
)

// C08 — handlers see one element at a time; stream-level input never reaches them.

func init() { register(&Scenario{ID: "C08", Run: runC08, Alt: runC08Response, AltEvery: 12}) }

// tokStr is the canonical text of a token.
func tokStr(t xml.Token) string {
	switch x := t.(type) {
	case xml.StartElement:
		var sb strings.Builder
		fmt.Fprintf(&sb, "<%s|%s", x.Name.Space, x.Name.Local)
		for _, a := range x.Attr {
			fmt.Fprintf(&sb, " %s|%s=%q", a.Name.Space, a.Name.Local, a.Value)
		}
		return sb.String() + ">"
	case xml.EndElement:
		return fmt.Sprintf("</%s|%s>", x.Name.Space, x.Name.Local)
	case xml.CharData:
		return fmt.Sprintf("T%q", string(x))
	case xml.Comment:
		return fmt.Sprintf("C%q", string(x))
	case xml.ProcInst:
		return fmt.Sprintf("P%q%q", x.Target, string(x.Inst))
	case xml.Directive:
		return fmt.Sprintf("D%q", string(x))
	}
	return fmt.Sprintf("?%T", t)
}

// refItem is one top-level construct of the peer's stream as parsed offline.
type refItem struct {
	kind string // elem, ws, text, comment, procinst, directive, close, syntax, eof
	el   Elem
	// partial: the input broke (syntax error or end of input) inside this element
	partial bool
	// for elem: index of the first forbidden token inside (comment/PI/directive/stream-namespace element), -1 if none
	forbidden int
}

// refParse parses everything the peer wrote after its header into top-level constructs.
func refParse(b []byte, ws bool) []refItem {
	d := xml.NewDecoder(bytes.NewReader(b))
	depth := 0
	if ws {
		depth = 1 // WebSocket framing: no enclosing element
	}
	var items []refItem
	var cur *refItem
	for {
		off := int(d.InputOffset())
		tok, err := d.Token()
		if err != nil {
			if err == io.EOF && depth <= 1 && cur == nil {
				return append(items, refItem{kind: "eof"})
			}
			if cur != nil {
				cur.partial = true
				items = append(items, *cur)
			}
			return append(items, refItem{kind: "syntax"})
		}
		tok = xml.CopyToken(tok)
		if depth == 0 {
			if _, ok := tok.(xml.StartElement); ok {
				depth = 1
			}
			continue
		}
		if depth == 1 {
			switch t := tok.(type) {
			case xml.StartElement:
				if ws && t.Name.Space == nsFraming {
					if t.Name.Local == "close" {
						return append(items, refItem{kind: "close"})
					}
					return append(items, refItem{kind: "restart"})
				}
				depth = 2
				cur = &refItem{kind: "elem", el: Elem{Start: t, Off: off, Toks: []xml.Token{t}}, forbidden: -1}
			case xml.EndElement:
				return append(items, refItem{kind: "close"})
			case xml.CharData:
				if len(bytes.TrimLeft(t, " \t\r\n")) == 0 {
					items = append(items, refItem{kind: "ws"})
				} else {
					return append(items, refItem{kind: "text"})
				}
			case xml.Comment:
				return append(items, refItem{kind: "comment"})
			case xml.ProcInst:
				return append(items, refItem{kind: "procinst"})
			case xml.Directive:
				return append(items, refItem{kind: "directive"})
			}
			continue
		}
		// inside an element
		switch t := tok.(type) {
		case xml.StartElement:
			depth++
			if t.Name.Space == nsStream && cur.forbidden < 0 {
				cur.forbidden = len(cur.el.Toks)
			}
		case xml.EndElement:
			depth--
		case xml.Comment, xml.ProcInst, xml.Directive:
			if cur.forbidden < 0 {
				cur.forbidden = len(cur.el.Toks)
			}
		}
		cur.el.Toks = append(cur.el.Toks, tok)
		if depth == 1 {
			cur.el.End = int(d.InputOffset())
			items = append(items, *cur)
			cur = nil
		}
	}
}

type c08Inv struct {
	start    string
	toks     []string
	readAll  bool
	postEOF  []error // results of reads attempted after the first io.EOF
	firstErr error
	retErr   error // the handler returned this error (of its own write) without reading on
}

// c08Gen: what the generator has to know about the session.
type c08Gen struct {
	ws         bool
	bare, full string
}

const nsFraming = "urn:ietf:params:xml:ns:xmpp-framing"

func genElement(rc *RC, n *int, depth int, g *c08Gen) string {
	ch := rc.Ch
	*n++
	names := []string{"message", "presence", "iq", "x", "data"}
	name := names[ch.Int("workload", len(names))]
	if !g.ws && ch.Chance("workload", 1, 25) {
		// elements of the WebSocket framing namespace mean nothing on a TCP stream: ordinary foreign elements
		return []string{`<close xmlns="` + nsFraming + `"/>`, `<open xmlns="` + nsFraming + `" version="1.0"/>`, `<close xmlns="` + nsFraming + `">x</close>`}[ch.Int("workload", 3)]
	}
	var sb strings.Builder
	sb.WriteString("<" + name)
	if depth == 0 {
		// the attributes come in a drawn order (from before or after id and type, xmlns first or last, …)
		var attrs []string
		switch ch.Int("workload", 4) {
		case 0:
			attrs = append(attrs, ` from="`+g.bare+`"`)
		case 1:
			attrs = append(attrs, ` from="other@example.net/r"`)
		case 2:
			attrs = append(attrs, ` from="`+g.full+`"`)
		}
		if name == "iq" {
			attrs = append(attrs, ` type="`+[]string{"result", "get", "set", "error"}[ch.Int("workload", 4)]+`"`)
		} else if (name == "message" || name == "presence") && ch.Chance("workload", 1, 2) {
			attrs = append(attrs, ` type="`+[]string{"chat", "unavailable", "error", "normal"}[ch.Int("workload", 4)]+`"`)
		}
		attrs = append(attrs, fmt.Sprintf(` id="e%d"`, *n))
		if ch.Chance("workload", 1, 3) {
			attrs = append(attrs, ` to="`+g.full+`"`)
		}
		if name == "x" || name == "data" {
			attrs = append(attrs, ` xmlns="urn:other"`)
		} else if g.ws {
			attrs = append(attrs, ` xmlns="jabber:client"`) // RFC 7395: every top-level element declares its namespace
		}
		if ch.Chance("workload", 1, 2) {
			for i := len(attrs) - 1; i > 0; i-- {
				j := ch.Int("workload", i+1)
				attrs[i], attrs[j] = attrs[j], attrs[i]
			}
		}
		sb.WriteString(strings.Join(attrs, ""))
	}
	if ch.Chance("workload", 1, 4) {
		sb.WriteString("/>")
		return sb.String()
	}
	sb.WriteString(">")
	kids := ch.Range("workload", 0, 3)
	if depth == 0 && ch.Chance("workload", 1, 40) {
		// a payload nested a few hundred levels deep, with text on every level: still one element of the stream
		d := ch.Range("workload", 200, 600)
		for i := 0; i < d; i++ {
			fmt.Fprintf(&sb, "<d>t%d", i%10)
		}
		sb.WriteString(strings.Repeat("</d>", d))
	}
	for i := 0; i < kids; i++ {
		switch k := ch.Int("workload", 12); {
		case k < 4 && depth < 3:
			sb.WriteString(genElement(rc, n, depth+1, g))
		case k < 7:
			fmt.Fprintf(&sb, "text%d &amp; more", *n)
		case k == 7:
			sb.WriteString(" \n ")
		case k == 8 && depth < 3:
			// a nested element named like a stanza
			fmt.Fprintf(&sb, `<message id="n%d"><body>nested</body></message>`, *n)
		default:
			fmt.Fprintf(&sb, "<c a='%d'/>", *n)
		}
	}
	sb.WriteString("</" + name + ">")
	return sb.String()
}

func runC08(rc *RC) {
	ch := rc.Ch
	if d := rc.S.ConfigureDense(); d != "" {
		rc.Describe("%s", d)
	}
	opts := E2Opts{S2S: ch.Chance("workload", 1, 4), Chunk: true}
	if !opts.S2S && ch.Chance("workload", 1, 3) {
		opts.WS = true
	}
	e := rc.NewE2(opts)
	if e == nil {
		return
	}
	g := &c08Gen{ws: opts.WS, bare: e.Local.Bare().String(), full: e.Local.String()}
	streamPfx, streamDecl := "stream:", ""
	if opts.WS {
		streamPfx, streamDecl = "", ` xmlns="`+nsStream+`"`
	}
	chunkMode := ch.Int("workload", 3)
	switch chunkMode {
	case 0:
		rc.Net.Chunk = func() int { return 1 }
	case 1:
		rc.Net.Chunk = func() int { return 1 + ch.Int("net", 7) }
	default:
		rc.Net.Chunk = func() int { return 1 + ch.Int("net", 200) }
	}
	// ---- generate the peer's stream ----
	var sb strings.Builder
	nItems := ch.Range("workload", 1, 12)
	term := ""
	n := 0
	for i := 0; i < nItems && term == ""; i++ {
		switch k := ch.Int("workload", 30); {
		case k < 16:
			sb.WriteString(genElement(rc, &n, 0, g))
		case k < 19:
			sb.WriteString([]string{" ", "\n", "\t \r\n"}[ch.Int("workload", 3)])
		case k == 19:
			term = "comment"
			sb.WriteString("<!-- hi -->")
		case k == 20:
			term = "procinst"
			// any processing instruction, the XML declaration included (it belongs in front of a stream header, nowhere else)
			sb.WriteString([]string{"<?target inst?>", "<?xml version='1.0'?>", `<?xml version="1.0" encoding="UTF-8"?>`, "<?xml-stylesheet href='x'?>"}[ch.Int("workload", 4)])
		case k == 21:
			term = "directive"
			sb.WriteString("<!DOCTYPE x>")
		case k == 22:
			term = "text"
			// character data is only complete once the next tag starts; text made of spaces that are not XML whitespace is text
			sb.WriteString([]string{"stray text", "\u00a0", "\u0085", "\u2028\u2029", "\u3000 \u2003", " \u00a0 ", "\ufeff"}[ch.Int("workload", 7)])
			sb.WriteString("<x xmlns='urn:other'/>")
		case k == 23:
			term = "streamerror"
			// the defined condition alone, with a text, with an application-specific condition next to it (RFC 6120 4.9.2),
			// or with both
			extra := []string{"", `<text xmlns='urn:ietf:params:xml:ns:xmpp-streams' xml:lang='en'>replaced by a new connection</text>`,
				`<too-many xmlns='http://example.org/ns'/>`, `<text xmlns='urn:ietf:params:xml:ns:xmpp-streams'>bye</text><escape-your-data xmlns='urn:verif:app'>x<y/></escape-your-data>`}[ch.Int("workload", 4)]
			fmt.Fprintf(&sb, `<%serror%s><conflict xmlns='urn:ietf:params:xml:ns:xmpp-streams'/>%s</%serror>`, streamPfx, streamDecl, extra, streamPfx)
		case k == 24:
			term = "restart"
			if opts.WS {
				sb.WriteString(`<open xmlns="` + nsFraming + `" version='1.0' id='again'/>`)
			} else {
				fmt.Fprintf(&sb, `<stream:stream xmlns='%s' xmlns:stream='http://etherx.jabber.org/streams' version='1.0' id='again'>`, e.NS)
			}
		case k == 25:
			term = "unknownstream"
			fmt.Fprintf(&sb, `<%sfoo%s/>`, streamPfx, streamDecl)
		case k == 26:
			term = "malformed"
			sb.WriteString(`<message xmlns="jabber:client"><body></message>`)
		case k == 27:
			// not a terminator for the generator: the closing tag still follows, so
			// that Serve returns even if the handler swallows the read error
			nsd := ""
			if opts.WS {
				nsd = ` xmlns="jabber:client"`
			}
			sb.WriteString([]string{
				`<message` + nsd + ` id="nf"><body>a</body><!-- c --><x/></message>`,
				`<message` + nsd + ` id="nf"><x><` + streamPfx + `error` + streamDecl + `><conflict xmlns='urn:ietf:params:xml:ns:xmpp-streams'/></` + streamPfx + `error></x></message>`,
				`<iq` + nsd + ` type="result" id="nf"><?pi x?></iq>`,
				`<presence` + nsd + ` id="nf"><` + streamPfx + `features` + streamDecl + `/></presence>`,
			}[ch.Int("workload", 4)])
		case k == 28:
			term = "eof-mid"
			full := genElement(rc, &n, 0, g)
			sb.WriteString(full[:ch.Range("workload", 1, len(full)-1)])
		default:
			term = "close"
			sb.WriteString(e.CloseTag())
		}
	}
	if term == "" {
		if ch.Chance("workload", 1, 5) {
			term = "eof"
		} else {
			term = "close"
			sb.WriteString(e.CloseTag())
		}
	}
	streamText := sb.String()
	rc.Describe("s2s=%v ws=%v chunk=%d term=%s stream=%q", opts.S2S, opts.WS, chunkMode, term, clip(streamText, 300))
	rc.CaseKey = fmt.Sprint(term, opts.S2S, opts.WS)

	// ---- handler with consumption programs ----
	var invs []*c08Inv
	handler := xmpp.HandlerFunc(func(t xmlstream.TokenReadEncoder, start *xml.StartElement) error {
		inv := &c08Inv{start: tokStr(*start)}
		invs = append(invs, inv)
		mode := ch.Int("handler", 4) // 0 none, 1 some, 2 all, 3 all + past the end
		// what the handler writes must not matter either: nothing, a complete element, or a partial one (start tag only)
		switch wr := ch.Int("handler", 6); wr {
		case 4, 5:
			st := el("", "message", "id", fmt.Sprintf("w%d", len(invs)), "to", "x@example.net")
			werr := t.EncodeToken(st)
			if wr == 4 {
				if err := t.EncodeToken(st.End()); werr == nil {
					werr = err
				}
			} else {
				rc.S.Probes["handler-partial-write"]++
			}
			// a handler that gives up when it cannot reply (the local side closed its output meanwhile): it returns the
			// error of its write, having read nothing of its element. That ends Serve with an error; in no case is the
			// unread rest of the element taken for top-level input.
			if werr != nil && ch.Chance("handler", 1, 2) {
				inv.retErr = werr
				rc.S.Probes["handler-returns-write-error"]++
				return werr
			}
		}
		limit := -1
		switch mode {
		case 0:
			return nil
		case 1:
			limit = ch.Range("handler", 1, 4)
		}
		for limit != 0 {
			tok, err := t.Token()
			if err != nil {
				inv.firstErr = err
				if err == io.EOF {
					inv.readAll = true
				}
				break
			}
			inv.toks = append(inv.toks, tokStr(tok))
			limit--
		}
		if mode == 3 && inv.readAll {
			for i := 0; i < 3; i++ {
				tok, err := t.Token()
				if tok != nil {
					inv.toks = append(inv.toks, "PAST-END:"+tokStr(tok))
				}
				inv.postEOF = append(inv.postEOF, err)
			}
		}
		return nil
	})
	e.Serve(handler)
	// in a quarter of the runs the local side closes its output stream at some point while input keeps coming
	if ch.Chance("workload", 1, 4) {
		at := time.Duration(ch.Range("workload", 0, 40)) * time.Millisecond
		rc.Spawn("local-close", func() {
			simrt.Sleep(at)
			e.Sess.Close()
			rc.Fire("local-close")
		})
	}
	peerDone := false
	p := rc.Spawn("peer", func() {
		// the stream is written in a few pieces so that deliveries interleave with the serve loop
		b := []byte(streamText)
		for len(b) > 0 {
			k := len(b)
			if ch.Chance("workload", 2, 3) {
				k = ch.Range("workload", 1, len(b))
			}
			e.Peer.Write(b[:k])
			b = b[k:]
			if ch.Chance("workload", 1, 3) {
				simrt.Sleep(time.Duration(ch.Range("workload", 1, 50)) * time.Millisecond)
			}
		}
		if term == "eof" || term == "eof-mid" {
			e.Peer.CloseWrite()
			rc.Fire("cut")
		}
		peerDone = true
	})
	_ = p
	st := rc.S.Run(func() bool { return e.ServeDone && peerDone }, 60000, time.Minute)

	// ---- reference model ----
	items := refParse(e.PeerStream(), opts.WS)
	var expect []refItem
	termKind := ""
	swallowed := false
	var later []string // starts of the top-level elements that follow an element with a nested stream-level construct
	for ii, it := range items {
		if it.kind == "ws" {
			continue
		}
		if it.kind == "elem" && it.el.Start.Name.Space != nsStream {
			expect = append(expect, it)
			if k := len(expect) - 1; k < len(invs) && invs[k].retErr != nil {
				termKind = "handler-error"
				break
			}
			if it.forbidden >= 0 {
				for _, lt := range items[ii+1:] {
					if lt.kind == "elem" && lt.el.Start.Name.Space != nsStream {
						later = append(later, lt.el.Start.Name.Local+"|"+(Elem{Start: lt.el.Start}).Attr("id"))
					}
				}
				termKind = "nested-forbidden"
				// if the handler itself read up to the forbidden token it was told
				// (it got an error instead of the token); a handler that ignores that
				// error makes what follows unspecified
				if k := len(expect) - 1; k < len(invs) && len(invs[k].toks) == it.forbidden-1 && invs[k].firstErr != nil && invs[k].firstErr != io.EOF {
					swallowed = true
				}
				break
			}
			if it.partial {
				termKind = "syntax"
				break
			}
			continue
		}
		termKind = it.kind
		if it.kind == "elem" {
			termKind = "stream-elem:" + it.el.Start.Name.Local
		}
		break
	}
	// c5: Serve's result
	rc.Evals["C08.c5"]++
	if !e.ServeDone {
		if termKind != "" {
			rc.Failf("C08.c5", "serve-not-returned:"+termKind, "input ended with %s but Serve has not returned (status %v, stuck %v)", termKind, st, rc.S.Stuck())
		}
	} else {
		var se stream.Error
		switch termKind {
		case "close":
			rc.Check("C08.c5", "close-not-nil", e.ServeErr == nil, "peer's closing tag: Serve returned %v, want nil", e.ServeErr)
		case "stream-elem:error":
			rc.Check("C08.c5", "stream-error-not-returned", errors.As(e.ServeErr, &se) && se.Err == "conflict", "received stream error: Serve returned %#v, want the stream.Error conflict", e.ServeErr)
		case "handler-error":
			rc.Check("C08.c5", "handler-error-not-returned", e.ServeErr != nil, "a handler returned %v: Serve returned nil", invs[len(expect)-1].retErr)
		case "eof", "syntax":
			// connection ended / malformed: Serve returned, any result
		case "nested-forbidden":
			if !swallowed {
				rc.Check("C08.c5", "construct-not-error:nested", e.ServeErr != nil, "stream-level construct nested in a stanza (not consumed by the handler): Serve returned nil")
			}
		default:
			rc.Check("C08.c5", "construct-not-error:"+termKind, e.ServeErr != nil, "stream-level construct %s: Serve returned nil", termKind)
		}
	}
	// c1/c3: invocations = expected elements in order (the last expected one may be missing only if input broke inside it)
	rc.Evals["C08.c1"]++
	if len(invs) > len(expect) && !swallowed {
		rc.Failf("C08.c1", "extra-invocation", "handler invoked %d times, stream has %d top-level elements before %q; extra start %s", len(invs), len(expect), termKind, invs[len(expect)].start)
	}
	if len(invs) > len(expect) && swallowed {
		// the handler ignored the error it got for the nested construct: what the session does next is not specified,
		// but whatever it goes on to hand out is a top-level element of the peer's stream, never a piece of one
		li := 0
		for _, inv := range invs[len(expect):] {
			found := false
			for li < len(later) && !found {
				parts := strings.SplitN(later[li], "|", 2)
				found = (strings.Contains(inv.start, "|"+parts[0]+" ") || strings.HasSuffix(inv.start, "|"+parts[0]+">")) && strings.HasPrefix(inv.start, "<") && (parts[1] == "" || strings.Contains(inv.start, `id="`+parts[1]+`"`))
				li++
			}
			if !found {
				rc.Failf("C08.c1", "piece-of-an-element-invoked", "after a stream-level construct nested in a stanza (whose error the handler ignored) the handler was invoked with %s, which is no top-level element of the peer's stream (those that follow: %v)", inv.start, later)
				break
			}
		}
	}
	if len(invs) < len(expect) && e.ServeDone {
		rc.Failf("C08.c1", "missing-invocation:"+termKind, "handler invoked %d times, expected %d (terminator %s): first missing %s", len(invs), len(expect), termKind, tokStr(expect[len(invs)].el.Start))
	}
	for i, inv := range invs {
		if i >= len(expect) {
			break
		}
		ref := expect[i]
		// c4: from normalisation
		want := ref.el.Start.Copy()
		if n := want.Name.Local; (n == "message" || n == "presence" || n == "iq") && want.Name.Space == e.NS {
			for j, a := range want.Attr {
				if a.Name.Local == "from" {
					if a.Value == e.Local.Bare().String() {
						want.Attr[j].Value = ""
					}
					break
				}
			}
		}
		rc.Evals["C08.c3"]++
		if inv.start != tokStr(want) {
			clause, sig := "C08.c3", "wrong-start"
			if strings.Contains(inv.start, "from") && strings.TrimSuffix(strings.Split(inv.start, " ")[0], ">") == strings.TrimSuffix(strings.Split(tokStr(want), " ")[0], ">") {
				clause, sig = "C08.c4", "from-normalisation"
			}
			rc.Failf(clause, sig, "invocation %d got start %s, want %s", i, inv.start, tokStr(want))
			continue
		}
		// c2: tokens readable are exactly the element's content through its end tag, then io.EOF
		rc.Evals["C08.c2"]++
		refToks := ref.el.Toks[1:]
		if ref.forbidden >= 0 {
			refToks = ref.el.Toks[1:ref.forbidden]
		}
		for j, ts := range inv.toks {
			if strings.HasPrefix(ts, "PAST-END:") {
				rc.Failf("C08.c2", "read-past-end", "invocation %d read %s after the end of its element", i, ts)
				break
			}
			if j >= len(refToks) {
				rc.Failf("C08.c2", "read-beyond-element", "invocation %d read token %d %s beyond its element (%d tokens)", i, j, ts, len(refToks))
				break
			}
			if ts != tokStr(refToks[j]) {
				rc.Failf("C08.c2", "token-mismatch", "invocation %d token %d: got %s want %s", i, j, ts, tokStr(refToks[j]))
				break
			}
		}
		if inv.readAll && ref.partial {
			rc.Failf("C08.c2", "eof-in-broken-element", "invocation %d got io.EOF although its element never ended", i)
		}
		if inv.readAll && ref.forbidden < 0 && !ref.partial && len(inv.toks) < len(refToks) {
			rc.Failf("C08.c2", "early-eof", "invocation %d got io.EOF after %d of %d tokens", i, len(inv.toks), len(refToks))
		}
		if ref.forbidden >= 0 && inv.readAll {
			rc.Failf("C08.c5", "forbidden-token-skipped", "invocation %d read to io.EOF although its element contains a stream-level construct at token %d", i, ref.forbidden)
		}
		for _, err := range inv.postEOF {
			if err != io.EOF {
				rc.Failf("C08.c2", "post-eof-read", "invocation %d: read after io.EOF returned %v", i, err)
			}
		}
	}
	stuck := rc.Teardown()
	rc.CheckPanics("C08.c1")
	rc.Check("C08.c5", "stuck-after-teardown", len(stuck) == 0, "tasks still blocked after teardown: %v", stuck)
}
