package harness

import (
	"context"
	"encoding/xml"
	"fmt"
	"io"
	"strings"
	"time"

	"mellium.im/xmlstream"
	"mellium.im/xmpp"
	"mellium.im/xmpp/stanza"
	"verif.sim/simrt"
)

// runC08Response: the stream-level construct sits inside a stanza that no handler ever sees - the response to a request
// of the application, which the serve loop hands to the waiting caller. "At any nesting depth" and "never reach a
// handler: they end the session with an error" hold there too: the caller is not shown the construct as a token, Serve
// ends with an error, and nothing that follows the construct on the wire is delivered to the handler.
func runC08Response(rc *RC) {
	ch := rc.Ch
	opts := E2Opts{S2S: ch.Chance("workload", 1, 3), Chunk: ch.Chance("workload", 1, 2)}
	if !opts.S2S && ch.Chance("workload", 1, 4) {
		opts.WS = true
	}
	strat := rc.S.ConfigureStrategy()
	e := rc.NewE2(opts)
	if e == nil {
		return
	}
	nsd, streamPfx, streamDecl := "", "stream:", ""
	if opts.WS {
		nsd, streamPfx, streamDecl = ` xmlns="jabber:client"`, "", ` xmlns="`+nsStream+`"`
	}
	kind := ch.Int("workload", 5)
	construct := []string{
		`<!-- c -->`,
		`<?pi x?>`,
		`<` + streamPfx + `error` + streamDecl + `><conflict xmlns='urn:ietf:params:xml:ns:xmpp-streams'/></` + streamPfx + `error>`,
		`<` + streamPfx + `features` + streamDecl + `/>`,
		`<!DOCTYPE x>`,
	}[kind]
	deep := ch.Chance("workload", 1, 2)
	nBefore, nAfter := ch.Range("workload", 0, 2), ch.Range("workload", 1, 3)
	readMode := ch.Int("workload", 3) // the caller reads nothing / a few tokens / everything it can, then closes the response
	rtype := []string{"result", "error"}[ch.Int("workload", 2)]
	var sb strings.Builder
	for i := 0; i < nBefore; i++ {
		fmt.Fprintf(&sb, `<message%s id="b%d" from="peer@example.net"><body>x</body></message>`, nsd, i)
	}
	resp := `<a xmlns="urn:verif:a">t</a>` + construct + `<b xmlns="urn:verif:b"/>`
	if deep {
		resp = `<q xmlns="urn:verif:q"><a>t</a><w>` + construct + `</w><b/></q>`
	}
	fmt.Fprintf(&sb, `<iq%s type="%s" id="rq9" from="%s">%s</iq>`, nsd, rtype, e.Remote, resp)
	for i := 0; i < nAfter; i++ {
		fmt.Fprintf(&sb, `<message%s id="a%d" from="peer@example.net"><body>y</body></message>`, nsd, i)
	}
	sb.WriteString(e.CloseTag())
	rc.Describe("response with nested construct: strategy=%s s2s=%v ws=%v kind=%d deep=%v before=%d after=%d read=%d type=%s", strat, opts.S2S, opts.WS, kind, deep, nBefore, nAfter, readMode, rtype)
	rc.CaseKey = fmt.Sprint("resp", opts.S2S, opts.WS, kind, deep, readMode)
	rc.Fire("construct-in-response")
	var starts []string
	e.Serve(xmpp.HandlerFunc(func(t xmlstream.TokenReadEncoder, start *xml.StartElement) error {
		id := ""
		for _, a := range start.Attr {
			if a.Name.Local == "id" {
				id = a.Value
			}
		}
		starts = append(starts, start.Name.Local+"#"+id)
		return nil
	}))
	var ctoks []string
	var cerr, rerr error
	callerDone := false
	caller := rc.Spawn("caller", func() {
		defer func() { callerDone = true }()
		ctx, cancel := context.WithTimeout(e.Ctx, 30*time.Second)
		defer cancel()
		r, err := e.Sess.SendIQ(ctx, stanza.IQ{ID: "rq9", Type: stanza.GetIQ, To: e.Remote}.Wrap(xmlstream.Wrap(nil, xml.StartElement{Name: xml.Name{Space: "urn:verif:q", Local: "q"}})))
		if err != nil {
			cerr = err
			return
		}
		limit := []int{0, 1 + ch.Int("workload", 3), 1 << 20}[readMode]
		for i := 0; i < limit; i++ {
			tok, err := r.Token()
			if tok != nil {
				ctoks = append(ctoks, tokStr(tok))
			}
			if err != nil {
				rerr = err
				break
			}
		}
		r.Close()
	})
	rc.Spawn("peer", func() {
		e.WaitWire("request", `id="rq9"`)
		b := []byte(sb.String())
		for len(b) > 0 {
			k := len(b)
			if ch.Chance("workload", 2, 3) {
				k = ch.Range("workload", 1, len(b))
			}
			e.Peer.Write(b[:k])
			b = b[k:]
			if ch.Chance("workload", 1, 3) {
				simrt.Sleep(time.Duration(ch.Range("workload", 1, 50)) * time.Millisecond)
			}
		}
	})
	st := rc.S.Run(func() bool { return e.ServeDone && caller.Done() }, 100000, time.Minute)
	rc.Evals["C08.c5"]++
	if !e.ServeDone {
		rc.Failf("C08.c5", "serve-not-returned:construct-in-response", "a response handed to a waiting caller contained a stream-level construct (%s); Serve has not returned (caller done=%v): status %v, stuck %v", construct, callerDone, st, rc.S.Stuck())
	} else if cerr == nil && e.ServeErr == nil {
		rc.Failf("C08.c5", "construct-not-error:in-response", "a response handed to a waiting caller contained the stream-level construct %s (nested in a payload: %v); the caller read %d tokens (its read error: %v) and closed the response; Serve went on and returned nil at the peer's closing tag; handler invocations: %v", construct, deep, len(ctoks), rerr, starts)
	}
	// c1: nothing that follows the construct is delivered
	rc.Evals["C08.c1"]++
	for _, s := range starts {
		if strings.HasPrefix(s, "message#a") && cerr == nil {
			rc.Failf("C08.c1", "invocation-after-construct:in-response", "the handler was invoked with %s, which follows a stream-level construct (%s, inside the response to a request) on the wire; invocations: %v", s, construct, starts)
			break
		}
	}
	// c2: the caller is never shown the construct as a token
	rc.Evals["C08.c2"]++
	for _, tk := range ctoks {
		if strings.Contains(tk, "conflict") || strings.Contains(tk, "features") || strings.HasPrefix(tk, "<!--") || strings.HasPrefix(tk, "<?") || strings.HasPrefix(tk, "<!") {
			rc.Failf("C08.c2", "construct-delivered:in-response", "the caller that read the response was handed %s; tokens %v", tk, ctoks)
			break
		}
	}
	_ = io.EOF
	stuck := rc.Teardown()
	rc.CheckPanics("C08.c1")
	rc.Check("C08.c5", "stuck-after-teardown", len(stuck) == 0, "tasks still blocked after teardown: %v", stuck)
}
