package harness

import (
	"verif.sim/simrt/simnet"
	"bytes"
	"context"
	"encoding/xml"
	"fmt"
	"io"
	"os"
	"runtime"
	"strings"
	"time"

	"mellium.im/xmlstream"
	"mellium.im/xmpp"
	"mellium.im/xmpp/bin"
	"mellium.im/xmpp/blocklist"
	"mellium.im/xmpp/bookmarks"
	"mellium.im/xmpp/carbons"
	"mellium.im/xmpp/commands"
	"mellium.im/xmpp/disco"
	"mellium.im/xmpp/disco/items"
	"mellium.im/xmpp/form"
	"mellium.im/xmpp/history"
	"mellium.im/xmpp/ibb"
	"mellium.im/xmpp/jid"
	"mellium.im/xmpp/muc"
	"mellium.im/xmpp/mux"
	"mellium.im/xmpp/ping"
	"mellium.im/xmpp/pubsub"
	"mellium.im/xmpp/receipts"
	"mellium.im/xmpp/roster"
	"mellium.im/xmpp/stanza"
	"mellium.im/xmpp/upload"
	"mellium.im/xmpp/version"
	"mellium.im/xmpp/xtime"
	"verif.sim/simrt"
	"verif.sim/simrt/simsync"
)

// C09 — no peer input can panic or wedge the library.

func init() { register(&Scenario{ID: "C09", Run: runC09}) }

// ---- token-level mutation of well-formed XML ----

func parseTokens(s string) []xml.Token {
	d := xml.NewDecoder(strings.NewReader(s))
	var out []xml.Token
	for {
		t, err := d.RawToken()
		if err != nil {
			return out
		}
		out = append(out, xml.CopyToken(t))
	}
}

func renderTokens(toks []xml.Token) string {
	var b bytes.Buffer
	for _, t := range toks {
		switch x := t.(type) {
		case xml.StartElement:
			b.WriteString("<")
			if x.Name.Space != "" {
				b.WriteString(x.Name.Space + ":")
			}
			b.WriteString(x.Name.Local)
			for _, a := range x.Attr {
				b.WriteString(" ")
				if a.Name.Space != "" {
					b.WriteString(a.Name.Space + ":")
				}
				b.WriteString(a.Name.Local + `="` + escText(a.Value) + `"`)
			}
			b.WriteString(">")
		case xml.EndElement:
			b.WriteString("</")
			if x.Name.Space != "" {
				b.WriteString(x.Name.Space + ":")
			}
			b.WriteString(x.Name.Local + ">")
		case xml.CharData:
			b.WriteString(escText(string(x)))
		}
	}
	return b.String()
}

var oddValues = []string{"", "x", "-1", "0", "99999999999999999999", "true", "a@@b", "é", "65536", "4294967296", " ", "get", "result", "error", "set", "1e9", "sha-1", "2020-13-45T99:99:99Z", "+25:61", "form", "submit", "hidden", "both", "remove"}

// subtree returns the index just past the element starting at toks[i].
func subtreeEnd(toks []xml.Token, i int) int {
	depth := 0
	for j := i; j < len(toks); j++ {
		switch toks[j].(type) {
		case xml.StartElement:
			depth++
		case xml.EndElement:
			depth--
			if depth == 0 {
				return j + 1
			}
		}
	}
	return len(toks)
}

// mutate applies n drawn structural mutations (the outermost element keeps its name, id and type unless keepOuter is false).
func mutate(rc *RC, s string, n int, keepOuter bool) string {
	ch := rc.Ch
	toks := parseTokens(s)
	for k := 0; k < n && len(toks) > 0; k++ {
		var starts []int
		for i, t := range toks {
			if _, ok := t.(xml.StartElement); ok && (i > 0 || !keepOuter) {
				starts = append(starts, i)
			}
		}
		if len(starts) == 0 {
			break
		}
		i := starts[ch.Int("mutate", len(starts))]
		st := toks[i].(xml.StartElement)
		switch ch.Int("mutate", 11) {
		case 9, 10: // text content (or an attribute value) cut short, with a character missing or doubled
			var texts []int
			for j, t := range toks {
				if cd, ok := t.(xml.CharData); ok && len(strings.TrimSpace(string(cd))) > 0 {
					texts = append(texts, j)
				}
			}
			perturb := func(v string) string {
				if len(v) == 0 {
					return v
				}
				k := ch.Int("mutate", len(v))
				switch ch.Int("mutate", 3) {
				case 0:
					return v[:k]
				case 1:
					return v[:k] + v[k+1:]
				}
				return v[:k+1] + v[k:]
			}
			if len(texts) > 0 && ch.Chance("mutate", 2, 3) {
				j := texts[ch.Int("mutate", len(texts))]
				toks[j] = xml.CharData(perturb(string(toks[j].(xml.CharData))))
			} else if len(st.Attr) > 0 {
				j := ch.Int("mutate", len(st.Attr))
				if st.Attr[j].Name.Local != "xmlns" && st.Attr[j].Name.Space != "xmlns" {
					st.Attr = append([]xml.Attr{}, st.Attr...)
					st.Attr[j].Value = perturb(st.Attr[j].Value)
					toks[i] = st
				}
			}
		case 0: // drop an attribute
			if len(st.Attr) > 0 {
				j := ch.Int("mutate", len(st.Attr))
				st.Attr = append(append([]xml.Attr{}, st.Attr[:j]...), st.Attr[j+1:]...)
				toks[i] = st
			}
		case 1: // odd attribute value
			if len(st.Attr) > 0 {
				j := ch.Int("mutate", len(st.Attr))
				st.Attr = append([]xml.Attr{}, st.Attr...)
				st.Attr[j].Value = oddValues[ch.Int("mutate", len(oddValues))]
				toks[i] = st
			}
		case 2: // text where an element is expected
			end := subtreeEnd(toks, i)
			toks = append(append(append([]xml.Token{}, toks[:i]...), xml.CharData(oddValues[ch.Int("mutate", len(oddValues))])), toks[end:]...)
		case 3: // delete the subtree
			end := subtreeEnd(toks, i)
			toks = append(append([]xml.Token{}, toks[:i]...), toks[end:]...)
		case 4: // duplicate the subtree
			end := subtreeEnd(toks, i)
			dup := append([]xml.Token{}, toks[i:end]...)
			toks = append(append(append([]xml.Token{}, toks[:end]...), dup...), toks[end:]...)
		case 5: // empty the element
			end := subtreeEnd(toks, i)
			toks = append(append(append([]xml.Token{}, toks[:i+1]...), toks[end-1]), toks[end:]...)
		case 6: // odd text content
			toks = append(append(append([]xml.Token{}, toks[:i+1]...), xml.CharData(oddValues[ch.Int("mutate", len(oddValues))])), toks[i+1:]...)
		case 7: // change the namespace declaration
			st.Attr = append([]xml.Attr{}, st.Attr...)
			for j := range st.Attr {
				if st.Attr[j].Name.Local == "xmlns" {
					st.Attr[j].Value = []string{"urn:other", "jabber:client", "jabber:x:data", "urn:xmpp:forward:0"}[ch.Int("mutate", 4)]
				}
			}
			toks[i] = st
		case 8: // wrap the subtree's children into a nested copy of the element (deep nesting)
			end := subtreeEnd(toks, i)
			inner := append([]xml.Token{}, toks[i:end]...)
			toks = append(append(append([]xml.Token{}, toks[:i+1]...), inner...), toks[i+1:]...)
		}
	}
	return renderTokens(toks)
}

// ---- incoming stanzas for the library's handlers ----

var c09Incoming = []string{
	`<iq type='get' id='ID' from='a@b.example/c'><ping xmlns='urn:xmpp:ping'/></iq>`,
	`<iq type='get' id='ID' from='a@b.example/c'><query xmlns='http://jabber.org/protocol/disco#info' node='n'/></iq>`,
	`<iq type='get' id='ID' from='a@b.example/c'><query xmlns='http://jabber.org/protocol/disco#items'/></iq>`,
	`<presence from='a@b.example/c'><c xmlns='http://jabber.org/protocol/caps' hash='sha-1' node='http://x' ver='QgayPKawpkPSDYmwT/WM94uAlu0='/></presence>`,
	`<iq type='set' id='ID'><query xmlns='jabber:iq:roster' ver='v2'><item jid='a@b.example' name='A' subscription='to'><group>G</group></item></query></iq>`,
	`<iq type='get' id='ID'><blocklist xmlns='urn:xmpp:blocking'/></iq>`,
	`<iq type='set' id='ID'><block xmlns='urn:xmpp:blocking'><item jid='spam@b.example'><report xmlns='urn:xmpp:reporting:1' reason='urn:xmpp:reporting:spam'><text>t</text></report></item></block></iq>`,
	`<iq type='set' id='ID'><unblock xmlns='urn:xmpp:blocking'><item jid='spam@b.example'/></unblock></iq>`,
	`<iq type='set' id='ID'><unblock xmlns='urn:xmpp:blocking'/></iq>`,
	`<iq type='get' id='ID' from='a@b.example/c'><query xmlns='jabber:iq:version'/></iq>`,
	`<iq type='get' id='ID' from='a@b.example/c'><time xmlns='urn:xmpp:time'/></iq>`,
	`<iq type='get' id='ID' from='a@b.example/c'><data xmlns='urn:xmpp:bob' cid='sha1+8f35fef110ffc5df08d579a50083ff9308fb6242@bob.xmpp.org'/></iq>`,
	`<message from='me@example.net' type='chat'><received xmlns='urn:xmpp:carbons:2'><forwarded xmlns='urn:xmpp:forward:0'><delay xmlns='urn:xmpp:delay' stamp='2010-07-10T23:08:25Z'/><message xmlns='jabber:client' from='a@b.example/c' to='me@example.net/x' type='chat'><body>hi</body></message></forwarded></received></message>`,
	`<message from='me@example.net' type='chat'><sent xmlns='urn:xmpp:carbons:2'><forwarded xmlns='urn:xmpp:forward:0'><message xmlns='jabber:client' to='a@b.example/c' from='me@example.net/x' type='chat'><body>yo</body></message></forwarded></sent></message>`,
	`<message id='ID' from='a@b.example/c' type='chat'><body>x</body><request xmlns='urn:xmpp:receipts'/></message>`,
	`<message from='a@b.example/c'><received xmlns='urn:xmpp:receipts' id='zzz'/></message>`,
	`<message from='a@b.example/c' type='error'><received xmlns='urn:xmpp:receipts' id='zzz'/></message>`,
	`<message from='example.net'><result xmlns='urn:xmpp:mam:2' queryid='q1' id='28'><forwarded xmlns='urn:xmpp:forward:0'><delay xmlns='urn:xmpp:delay' stamp='2010-07-10T23:08:25Z'/><message xmlns='jabber:client' from='w@x.example' to='m@n.example'><body>b</body></message></forwarded></result></message>`,
	`<presence from='room@conf.example.net/nick'><x xmlns='http://jabber.org/protocol/muc#user'><item affiliation='member' role='participant' jid='a@b.example/c' nick='nick'/><status code='110'/><status code='210'/></x></presence>`,
	`<presence from='room@conf.example.net/nick' type='unavailable'><x xmlns='http://jabber.org/protocol/muc#user'><item affiliation='none' role='none'><actor nick='adm'/><reason>r</reason></item><status code='307'/></x></presence>`,
	`<message from='room@conf.example.net'><x xmlns='http://jabber.org/protocol/muc#user'><invite from='friend@example.net/r'><reason>come</reason></invite><password>pw</password></x></message>`,
	`<message from='friend@example.net/r'><x xmlns='jabber:x:conference' jid='room@conf.example.net' password='pw' reason='come' continue='true' thread='t'/></message>`,
	`<iq type='set' id='ID' from='a@b.example/c' to='me@example.net/sut'><open xmlns='http://jabber.org/protocol/ibb' block-size='4096' sid='s1' stanza='iq'/></iq>`,
	`<iq type='set' id='ID' from='a@b.example/c'><data xmlns='http://jabber.org/protocol/ibb' seq='0' sid='s1'>aGVsbG8=</data></iq>`,
	`<message from='a@b.example/c'><data xmlns='http://jabber.org/protocol/ibb' seq='1' sid='s1'>aGVsbG8=</data></message>`,
	`<iq type='set' id='ID' from='a@b.example/c'><close xmlns='http://jabber.org/protocol/ibb' sid='s1'/></iq>`,
	`<iq type='set' id='ID' from='a@b.example/c' to='me@example.net/sut'><open xmlns='http://jabber.org/protocol/ibb' block-size='65535' sid='s2' stanza='message'/></iq>`,
	`<iq type='result' id='ID'/>`,
	`<iq type='error' id='ID'><error type='cancel'><item-not-found xmlns='urn:ietf:params:xml:ns:xmpp-stanzas'/></error></iq>`,
	`<message from='a@b.example/c' type='chat'><body>plain</body></message>`,
	`<presence from='a@b.example/c' type='subscribe'/>`,
}

func c09Mux(rc *RC, e *E2, ns string) (xmpp.Handler, *ibb.Handler, *history.Handler, *receipts.Handler, *muc.Client) {
	ih := &ibb.Handler{}
	hh := history.NewHandler(nil)
	rh := &receipts.Handler{Unhandled: func(string) {}}
	mc := &muc.Client{HandleInvite: func(muc.Invitation) {}, HandleUserPresence: func(stanza.Presence, muc.Item) {}}
	m := mux.New(ns,
		ping.Handle(),
		disco.Handle(),
		disco.HandleCaps(func(stanza.Presence, disco.Caps) {}),
		roster.Handle(roster.Handler{Push: func(string, roster.Item) error { return nil }}),
		blocklist.Handle(blocklist.Handler{Block: func(blocklist.Item) {}, Unblock: func(jid.JID) {}, UnblockAll: func() {}, List: func(c chan<- jid.JID) {
			for _, j := range []string{"x@y.example", "z.example", "q@y.example/r"} {
				c <- jid.MustParse(j)
			}
			// some accounts block a lot: the reply takes more than one write of the session's buffered encoder
			for i := 0; i < c09LongList; i++ {
				c <- jid.MustParse(fmt.Sprintf("spammer-number-%04d@a-rather-long-domain-name-%d.example", i, i%7))
			}
		}}),
		version.Handle(version.Query{Name: "n", Version: "1", OS: "os"}),
		xtime.Handle(xtime.Handler{}),
		bin.Handle(bin.Handler{}),
		carbons.Handle(carbons.Handler{F: func(m stanza.Message, sent bool, inner xml.TokenReader) error {
			_, err := xmlstream.Copy(xmlstream.Discard(), inner)
			return err
		}}),
		receipts.Handle(rh),
		history.Handle(hh),
		muc.HandleClient(mc),
		muc.HandleInvite(func(muc.Invitation) {}),
		ibb.Handle(ih),
	)
	return m, ih, hh, rh, mc
}

func runC09(rc *RC) {
	if d := rc.S.ConfigureDense(); d != "" {
		rc.Describe("%s", d)
	}
	if rc.Ch.Chance("workload", 1, 2) {
		rc.Net.Chunk = func() int { return 1 + rc.Ch.Int("net", 120) }
	}
	if rc.Ch.Int("workload", 2) == 0 {
		c09Handlers(rc)
	} else {
		c09Helpers(rc)
	}
}

// c09LongList: how many more entries the application's block list has in this run.
var c09LongList int

func c09Handlers(rc *RC) {
	ch := rc.Ch
	e := rc.NewE2(E2Opts{})
	if e == nil {
		return
	}
	c09LongList = 0
	if ch.Chance("workload", 1, 5) {
		c09LongList = ch.Range("workload", 40, 200)
	}
	// in a sixth of the runs the peer goes away for good while the session answers it: from the k-th write on the
	// connection refuses everything (the input may go on for a while; it ends in any case)
	if ch.Chance("faults", 1, 6) {
		e.SUT.WriteErrAt, e.SUT.WriteErr, e.SUT.WritePartial, e.SUT.WriteErrOnce = e.SUT.Writes+ch.Range("faults", 1, 12), simnet.ErrReset, ch.Int("faults", 60), false
		rc.Fire("peer-gone-plan")
	}
	m, ih, _, _, mc := c09Mux(rc, e, e.NS)
	echo := ch.Chance("workload", 1, 2)
	lst := ih.Listen(e.Sess)
	acc := rc.Spawn("acceptor", func() {
		for {
			c, err := lst.Accept()
			if err != nil {
				return
			}
			cc := c
			rc.S.Probes["ibb-stream-accepted"]++
			if echo {
				// an application that answers on the same stream: it is inside Write (waiting for the peer's
				// acknowledgement, which this peer never sends) while more input for the stream arrives
				rc.Spawn("ibb-reader-echo", func() {
					buf := make([]byte, 64)
					for {
						n, err := cc.Read(buf)
						if n > 0 {
							if _, werr := cc.Write(buf[:n]); werr != nil {
								return
							}
							if ferr := cc.(*ibb.Conn).Flush(); ferr != nil {
								return
							}
						}
						if err != nil {
							return
						}
					}
				})
				continue
			}
			rc.Spawn("ibb-reader", func() { io.Copy(io.Discard, cc) })
		}
	})
	acc.Daemon = true
	// a managed MUC room so that presences for it reach the handler's state machine
	if ch.Chance("workload", 1, 2) {
		j := rc.Spawn("muc-join", func() {
			ctx, cancel := context.WithTimeout(e.Ctx, 2*time.Second)
			defer cancel()
			mc.Join(ctx, jid.MustParse("room@conf.example.net/nick"), e.Sess)
		})
		j.Daemon = true
	}
	serveT := e.Serve(m)
	// in a quarter of the runs the local side closes its output stream while the peer keeps sending
	if ch.Chance("workload", 1, 4) {
		at := time.Duration(ch.Range("workload", 0, 20)) * time.Millisecond
		lc := rc.Spawn("local-close", func() {
			simrt.Sleep(at)
			e.Sess.Close()
			rc.Fire("local-close")
		})
		lc.Daemon = true
	}
	n := ch.Range("workload", 1, 30)
	var sb strings.Builder
	var sample []string
	cutMid := false
	if ch.Chance("workload", 1, 5) {
		// a coherent in-band bytestream conversation first: open, some data, close - none of our own data is ever acknowledged
		sid := "conv"
		carrier := []string{"iq", "message"}[ch.Int("workload", 2)]
		fmt.Fprintf(&sb, `<iq type='set' id='cv0' from='a@b.example/c' to='me@example.net/sut'><open xmlns='http://jabber.org/protocol/ibb' block-size='%d' sid='%s' stanza='%s'/></iq>`, []int{1, 8, 4096}[ch.Int("workload", 3)], sid, carrier)
		for k, nd := 0, ch.Range("workload", 0, 3); k < nd; k++ {
			if carrier == "iq" {
				fmt.Fprintf(&sb, `<iq type='set' id='cvd%d' from='a@b.example/c'><data xmlns='http://jabber.org/protocol/ibb' seq='%d' sid='%s'>aGVsbG8=</data></iq>`, k, k, sid)
			} else {
				fmt.Fprintf(&sb, `<message from='a@b.example/c'><data xmlns='http://jabber.org/protocol/ibb' seq='%d' sid='%s'>aGVsbG8=</data></message>`, k, sid)
			}
		}
		if ch.Chance("workload", 2, 3) {
			fmt.Fprintf(&sb, `<iq type='set' id='cvc' from='a@b.example/c'><close xmlns='http://jabber.org/protocol/ibb' sid='%s'/></iq>`, sid)
		}
		sample = append(sample, "ibb-conversation")
	}
	for i := 0; i < n; i++ {
		s := strings.ReplaceAll(c09Incoming[ch.Int("workload", len(c09Incoming))], "ID", fmt.Sprintf("in%d", i))
		if k := ch.Int("workload", 4); k > 0 {
			s = mutate(rc, s, k, ch.Chance("workload", 2, 3))
		}
		if ch.Chance("workload", 1, 60) && len(s) > 1 {
			s = s[:ch.Range("workload", 1, len(s)-1)] // truncated document: the stream ends here
			cutMid = true
			sb.WriteString(s)
			sample = append(sample, s)
			break
		}
		if ch.Chance("workload", 1, 80) {
			s = string([]byte{0x00, 0xff, '<', '<', 0x7f, '&', ';'}) // raw garbage
		}
		sb.WriteString(s)
		if len(sample) < 6 {
			sample = append(sample, clip(s, 160))
		}
	}
	input := sb.String()
	rc.Describe("handlers n=%d cutMid=%v %v", n, cutMid, sample)
	rc.CaseKey = "handlers"
	done := false
	rc.Spawn("peer", func() {
		b := []byte(input)
		for len(b) > 0 {
			k := len(b)
			if ch.Chance("workload", 1, 2) {
				k = ch.Range("workload", 1, len(b))
			}
			e.Peer.Write(b[:k])
			b = b[k:]
			if ch.Chance("workload", 1, 3) {
				simrt.Sleep(time.Duration(ch.Range("workload", 1, 10)) * time.Millisecond)
			}
		}
		if cutMid || ch.Chance("workload", 1, 4) {
			e.Peer.CloseWrite()
			rc.Fire("cut")
		} else {
			e.PeerWrite(closeTag)
		}
		done = true
	})
	st := rc.S.Run(func() bool { return e.ServeDone && done }, 200000, 2*time.Minute)
	wedged := false
	// c2/c3: Serve returns once the input has ended; a serve loop that is neither done nor waiting for input is wedged
	rc.Evals["C09.c2"]++
	if !e.ServeDone && serveT.Panic == nil {
		if os.Getenv("VERIF_DEBUG_STACKS") != "" {
			buf := make([]byte, 1<<20)
			os.Stderr.Write(buf[:runtime.Stack(buf, true)])
		}
		wedged = true
		rc.Failf("C09.c2", "serve-wedged:"+wedgeSite(rc)+lockHolders(), "the peer's input ended (%v) but Serve has not returned: stuck %v; input %q", st, rc.S.Stuck(), clip(input, 600))
	}
	stuck := rc.Teardown()
	rc.CheckPanics("C09.c1")
	var real []string
	for _, s := range stuck {
		if !strings.Contains(s, "ibb-reader") && !strings.Contains(s, "acceptor") {
			real = append(real, s)
		}
	}
	if !wedged {
		// (after a wedge the tasks left behind are its consequence, reported above)
		rc.Check("C09.c3", "stuck-after-teardown", len(real) == 0, "tasks still blocked after teardown: %v", real)
	}
}

// lockHolders names the tasks (other than the serve loop itself) that hold a mutex at the moment of a wedge, without
// their spawn counters: a lock held by a task that has finished or waits elsewhere is what the serve loop hangs on.
func lockHolders() string {
	seen := map[string]bool{}
	var names []string
	for _, n := range simsync.Held() {
		if n == "serve" {
			continue
		}
		var sb strings.Builder
		skip := false
		for _, r := range n {
			switch {
			case r == '#':
				skip = true
			case skip && r >= '0' && r <= '9':
			default:
				skip = false
				sb.WriteRune(r)
			}
		}
		if k := sb.String(); !seen[k] {
			seen[k] = true
			names = append(names, k)
		}
	}
	if len(names) == 0 {
		return ""
	}
	return ":held-by:" + strings.Join(names, ",")
}

// wedgeSite names where the serve task is blocked (signature of a wedge).
func wedgeSite(rc *RC) string {
	for _, s := range rc.S.Stuck() {
		if strings.HasPrefix(s, "serve@") {
			return strings.TrimSuffix(strings.TrimPrefix(s, "serve@"), "(blocked)")
		}
	}
	return "?"
}

// ---- request helpers against a peer that replies with generated / mutated results ----

type c09Helper struct {
	name string
	call func(ctx context.Context, s *xmpp.Session) error
}

func drain(next func() bool, err func() error, closeF func() error) error {
	// a peer that always answers with a next-page marker makes paging iterators go on for ever: that is its right, so stop after a few pages' worth
	n := 0
	for n < 25 && next() {
		n++
	}
	e := err()
	if c := closeF(); e == nil {
		e = c
	}
	return e
}

var c09To = jid.MustParse("svc.example.net")

// c09Hist is the history handler registered in the current run's multiplexer.
var c09Hist *history.Handler

// c09CloseAfterOne: drawn per run for the close-early helper.
var c09CloseAfterOne bool

var c09Helpers_ = []c09Helper{
	{"disco.GetInfo", func(ctx context.Context, s *xmpp.Session) error {
		i, err := disco.GetInfo(ctx, "node", c09To, s)
		if err == nil {
			func() { defer func() { recover() }() }()
			_ = i
		}
		return err
	}},
	{"disco.FetchItems", func(ctx context.Context, s *xmpp.Session) error {
		it := disco.FetchItems(ctx, items.Item{JID: c09To}, s)
		return drain(it.Next, it.Err, it.Close)
	}},
	{"roster.Fetch", func(ctx context.Context, s *xmpp.Session) error {
		it := roster.Fetch(ctx, s)
		return drain(it.Next, it.Err, it.Close)
	}},
	{"version.Get", func(ctx context.Context, s *xmpp.Session) error { _, err := version.Get(ctx, s, c09To); return err }},
	{"ping.Send", func(ctx context.Context, s *xmpp.Session) error { return ping.Send(ctx, s, c09To) }},
	{"xtime.Get", func(ctx context.Context, s *xmpp.Session) error { _, err := xtime.Get(ctx, s, c09To); return err }},
	{"upload.GetSlot", func(ctx context.Context, s *xmpp.Session) error {
		_, err := upload.GetSlot(ctx, upload.File{Name: "f", Size: 10, Type: "text/plain"}, c09To, s)
		return err
	}},
	{"blocklist.Fetch", func(ctx context.Context, s *xmpp.Session) error {
		it := blocklist.Fetch(ctx, s)
		return drain(it.Next, it.Err, it.Close)
	}},
	{"bookmarks.Fetch", func(ctx context.Context, s *xmpp.Session) error {
		it := bookmarks.Fetch(ctx, s)
		return drain(it.Next, it.Err, it.Close)
	}},
	{"pubsub.Fetch", func(ctx context.Context, s *xmpp.Session) error {
		it := pubsub.Fetch(ctx, s, pubsub.Query{Node: "n", MaxItems: 5})
		return drain(it.Next, it.Err, it.Close)
	}},
	{"history.Fetch", func(ctx context.Context, s *xmpp.Session) error {
		_, err := history.Fetch(ctx, history.Query{ID: "q1"}, c09To, s)
		return err
	}},
	{"commands.Fetch", func(ctx context.Context, s *xmpp.Session) error {
		it := commands.Fetch(ctx, c09To, s)
		return drain(it.Next, it.Err, it.Close)
	}},
	{"carbons.Enable", func(ctx context.Context, s *xmpp.Session) error { return carbons.Enable(ctx, s) }},
	{"muc.GetConfig", func(ctx context.Context, s *xmpp.Session) error {
		_, err := muc.GetConfig(ctx, jid.MustParse("room@conf.example.net"), s)
		return err
	}},
	{"muc.GetConfig+SetConfig", func(ctx context.Context, s *xmpp.Session) error {
		// what a client does with the room's configuration form: it sends it back
		room := jid.MustParse("room@conf.example.net")
		f, err := muc.GetConfig(ctx, room, s)
		if err != nil || f == nil {
			return err
		}
		return muc.SetConfig(ctx, room, f, s)
	}},
	{"bin.Get", func(ctx context.Context, s *xmpp.Session) error {
		_, err := bin.Get(ctx, s, c09To, "sha1+8f35fef110ffc5df08d579a50083ff9308fb6242@bob.xmpp.org")
		return err
	}},
	{"commands.Execute", func(ctx context.Context, s *xmpp.Session) error {
		_, r, err := commands.Command{JID: c09To, Node: "cfg"}.Execute(ctx, nil, s)
		if err != nil {
			return err
		}
		for i := 0; i < 200; i++ {
			if _, err := r.Token(); err != nil {
				break
			}
		}
		return r.Close()
	}},
	{"commands.ForEach", func(ctx context.Context, s *xmpp.Session) error {
		n := 0
		return commands.Command{JID: c09To, Node: "cfg"}.ForEach(ctx, nil, s, func(r commands.Response, p xml.TokenReader) (commands.Command, xml.TokenReader, error) {
			for i := 0; i < 200; i++ {
				if _, err := p.Token(); err != nil {
					if err != io.EOF {
						return commands.Command{}, nil, err // the reply cannot be read: an application stops here
					}
					break
				}
			}
			if n++; n > 4 {
				return r.Cancel(), nil, nil
			}
			if c09CloseAfterOne && n == 2 {
				// the application does not like what it got and says so
				return commands.Command{}, nil, errBoom
			}
			return r.Next(), nil, nil
		})
	}},
	{"pubsub.Publish", func(ctx context.Context, s *xmpp.Session) error {
		_, err := pubsub.Publish(ctx, s, "n", "", xmlstream.Wrap(nil, xml.StartElement{Name: xml.Name{Space: "urn:e", Local: "entry"}}))
		return err
	}},
	{"pubsub.CreateNode", func(ctx context.Context, s *xmpp.Session) error { return pubsub.CreateNode(ctx, s, "n", nil) }},
	{"pubsub.GetConfig", func(ctx context.Context, s *xmpp.Session) error { _, err := pubsub.GetConfig(ctx, s, "n"); return err }},
	{"pubsub.GetDefaultConfig", func(ctx context.Context, s *xmpp.Session) error {
		_, err := pubsub.GetDefaultConfig(ctx, s)
		return err
	}},
	{"pubsub.Delete", func(ctx context.Context, s *xmpp.Session) error { return pubsub.Delete(ctx, s, "n", "i1", true) }},
	{"roster.Set", func(ctx context.Context, s *xmpp.Session) error {
		return roster.Set(ctx, s, roster.Item{JID: jid.MustParse("a@b.example"), Name: "A", Group: []string{"G"}})
	}},
	{"roster.Delete", func(ctx context.Context, s *xmpp.Session) error {
		return roster.Delete(ctx, s, jid.MustParse("a@b.example"))
	}},
	{"bookmarks.Publish", func(ctx context.Context, s *xmpp.Session) error {
		return bookmarks.Publish(ctx, s, bookmarks.Channel{JID: jid.MustParse("room@conf.example.net"), Name: "n", Nick: "me", Autojoin: true})
	}},
	{"bookmarks.Delete", func(ctx context.Context, s *xmpp.Session) error {
		return bookmarks.Delete(ctx, s, jid.MustParse("room@conf.example.net"))
	}},
	{"disco.WalkItem", func(ctx context.Context, s *xmpp.Session) error {
		n := 0
		return disco.WalkItem(ctx, items.Item{JID: c09To}, s, func(level int, item items.Item, err error) error {
			if n++; n > 12 || level > 3 {
				return disco.ErrSkipItem
			}
			return err
		})
	}},
	{"blocklist.Add", func(ctx context.Context, s *xmpp.Session) error {
		return blocklist.Add(ctx, s, jid.MustParse("a@b.example"))
	}},
	{"blocklist.Remove", func(ctx context.Context, s *xmpp.Session) error { return blocklist.Remove(ctx, s) }},
	{"blocklist.Report", func(ctx context.Context, s *xmpp.Session) error {
		return blocklist.Report(ctx, s, blocklist.Item{JID: jid.MustParse("a@b.example"), Reason: blocklist.ReasonSpam, Text: "t"})
	}},
	{"muc.SetConfig", func(ctx context.Context, s *xmpp.Session) error {
		return muc.SetConfig(ctx, jid.MustParse("room@conf.example.net"), form.New(form.Title("t")), s)
	}},
	{"carbons.Disable", func(ctx context.Context, s *xmpp.Session) error { return carbons.Disable(ctx, s) }},
	{"history.Handler.Fetch", func(ctx context.Context, s *xmpp.Session) error {
		it := c09Hist.Fetch(ctx, history.Query{ID: "q2"}, c09To, s)
		return drain(it.Next, it.Err, it.Close)
	}},
	{"history.Handler.Fetch-slow-consumer", func(ctx context.Context, s *xmpp.Session) error {
		// the application looks at the iterator only after its context has ended; results that arrived meanwhile wait in the handler
		cctx, cancel := context.WithTimeout(ctx, 2*time.Second)
		defer cancel()
		it := c09Hist.Fetch(cctx, history.Query{ID: "q3"}, c09To, s)
		simrt.Sleep(3 * time.Second)
		return drain(it.Next, it.Err, it.Close)
	}},
	{"history.Handler.Fetch-close-early", func(ctx context.Context, s *xmpp.Session) error {
		// the application has seen enough after the first result (or before any) and closes the iterator
		it := c09Hist.Fetch(ctx, history.Query{ID: "q4"}, c09To, s)
		simrt.Sleep(500 * time.Millisecond)
		if simrt.Cur() != nil && c09CloseAfterOne {
			it.Next()
		}
		return it.Close()
	}},
	{"UnmarshalIQ", func(ctx context.Context, s *xmpp.Session) error {
		var v struct {
			XMLName xml.Name `xml:"jabber:iq:version query"`
			Name    string   `xml:"name"`
		}
		return s.UnmarshalIQElement(ctx, xmlstream.Wrap(nil, xml.StartElement{Name: xml.Name{Space: "jabber:iq:version", Local: "query"}}), stanza.IQ{Type: stanza.GetIQ, To: c09To}, &v)
	}},
	{"IterIQ", func(ctx context.Context, s *xmpp.Session) error {
		it, _, err := s.IterIQElement(ctx, xmlstream.Wrap(nil, xml.StartElement{Name: xml.Name{Space: "http://jabber.org/protocol/disco#items", Local: "query"}}), stanza.IQ{Type: stanza.GetIQ, To: c09To})
		if err != nil {
			return err
		}
		return drain(it.Next, it.Err, it.Close)
	}},
}

var c09Replies = []string{
	`<query xmlns='http://jabber.org/protocol/disco#info' node='node'><identity category='client' type='pc' name='n' xml:lang='en'/><feature var='urn:x'/><feature var='urn:y'/><x xmlns='jabber:x:data' type='result'><field var='FORM_TYPE' type='hidden'><value>urn:f</value></field><field var='a' type='list-multi'><value>1</value><value>2</value><option label='l'><value>1</value></option></field></x></query>`,
	`<query xmlns='http://jabber.org/protocol/disco#items' node='n'><item jid='a@b.example' node='n' name='x'/><item jid='c.example'/><set xmlns='http://jabber.org/protocol/rsm'><first index='0'>a</first><last>b</last><count>2</count></set></query>`,
	`<query xmlns='jabber:iq:roster' ver='v1'><item jid='a@b.example' name='A' subscription='both'><group>G</group><group>H</group></item><item jid='c@d.example' subscription='none'/></query>`,
	`<query xmlns='jabber:iq:version'><name>n</name><version>1</version><os>o</os></query>`,
	`<time xmlns='urn:xmpp:time'><tzo>+01:00</tzo><utc>2020-01-02T03:04:05Z</utc></time>`,
	`<slot xmlns='urn:xmpp:http:upload:0'><put url='https://x.example/y'><header name='Authorization'>b</header><header name='Cookie'>c</header></put><get url='https://x.example/z'/></slot>`,
	`<blocklist xmlns='urn:xmpp:blocking'><item jid='a@b.example'/><item jid='c.example'/></blocklist>`,
	`<pubsub xmlns='http://jabber.org/protocol/pubsub'><items node='urn:xmpp:bookmarks:1'><item id='room@conf.example.net'><conference xmlns='urn:xmpp:bookmarks:1' name='n' autojoin='true'><nick>me</nick><password>p</password><extensions><x xmlns='urn:e'/></extensions></conference></item><item id='r2@conf.example.net'><conference xmlns='urn:xmpp:bookmarks:1'/></item></items></pubsub>`,
	`<fin xmlns='urn:xmpp:mam:2' complete='true' stable='false'><set xmlns='http://jabber.org/protocol/rsm'><first index='0'>a</first><last>b</last><count>2</count></set></fin>`,
	`<query xmlns='http://jabber.org/protocol/muc#owner'><x xmlns='jabber:x:data' type='form'><title>t</title><instructions>i</instructions><field var='a' type='text-single' label='l'><desc>d</desc><required/><value>v</value></field><field var='b' type='boolean'><value>1</value></field><field var='c' type='jid-multi'><value>a@b.example</value></field><field var='d' type='text-multi'><value>line one</value><value/><value>ends with a newline
</value></field><field var='e' type='text-multi'><value/></field><field var='f' type='list-multi'><value/><option label='o'><value>x</value></option></field></x></query>`,
	`<data xmlns='urn:xmpp:bob' cid='sha1+8f35fef110ffc5df08d579a50083ff9308fb6242@bob.xmpp.org' type='image/png' max-age='86400'>aGVsbG8=</data>`,
	`<command xmlns='http://jabber.org/protocol/commands' sessionid='s1' node='cfg' status='executing'><actions execute='next'><prev/><next/><complete/></actions><note type='info'>n</note><x xmlns='jabber:x:data' type='form'><field var='a' type='text-multi'><value>l1</value><value>l2</value></field></x></command>`,
	`<command xmlns='http://jabber.org/protocol/commands' sessionid='s1' node='cfg' status='completed'><note type='warn'>done</note></command>`,
	`<pubsub xmlns='http://jabber.org/protocol/pubsub'><publish node='n'><item id='i9'/></publish></pubsub>`,
	`<pubsub xmlns='http://jabber.org/protocol/pubsub#owner'><configure node='n'><x xmlns='jabber:x:data' type='form'><field var='FORM_TYPE' type='hidden'><value>http://jabber.org/protocol/pubsub#node_config</value></field><field var='pubsub#title' type='text-single'><value>t</value></field></x></configure></pubsub>`,
	`<pubsub xmlns='http://jabber.org/protocol/pubsub#owner'><default><x xmlns='jabber:x:data' type='form'><field var='pubsub#max_items' type='text-single'><value>5</value></field></x></default></pubsub>`,
	``,
}

func c09Helpers(rc *RC) {
	ch := rc.Ch
	e := rc.NewE2(E2Opts{})
	if e == nil {
		return
	}
	m, _, hh, _, _ := c09Mux(rc, e, e.NS)
	c09Hist = hh
	c09CloseAfterOne = ch.Chance("workload", 1, 2)
	serveT := e.Serve(m)
	h := c09Helpers_[ch.Int("workload", len(c09Helpers_))]
	// the peer answers every get/set IQ with a drawn reply
	mode := ch.Int("workload", 7) // 0 canonical for some namespace, 1-3 mutated, 4 error, 5 other-namespace payload, 6 not well-formed
	reply := c09Replies[ch.Int("workload", len(c09Replies))]
	if i := c09MatchingReply(h.name); i >= 0 && ch.Chance("workload", 1, 2) {
		// half of the time the reply is (a mutation of) what this helper expects, so that its decoding is reached in depth
		reply = c09Replies[i]
	}
	if mode >= 1 && mode <= 3 && reply != "" {
		reply = mutate(rc, reply, mode, ch.Chance("workload", 1, 2))
	}
	if mode == 6 {
		// the reply stops being XML somewhere inside: the stream is beyond repair, but the call and Serve still have to end
		if reply == "" {
			reply = c09Replies[0]
		}
		cut := 1 + ch.Int("workload", len(reply)-1)
		reply = reply[:cut] + []string{"</bogus>", "<", "<<x/>", "&nosuchentity;", "</iq></iq>", "<a b=c/>", "\x00"}[ch.Int("workload", 7)] + reply[cut:]
		rc.Fire("reply-not-well-formed")
	}
	extra := ""
	if h.name == "history.Fetch" && ch.Chance("workload", 1, 2) {
		extra = mutate(rc, c09Incoming[17], ch.Int("workload", 3), true)
	}
	silentAfterExtra := false
	if strings.HasPrefix(h.name, "history.Handler.Fetch") && ch.Chance("workload", 2, 3) {
		qid := map[string]string{"history.Handler.Fetch": "q2", "history.Handler.Fetch-slow-consumer": "q3", "history.Handler.Fetch-close-early": "q4"}[h.name]
		extra = strings.Repeat(strings.Replace(c09Incoming[17], "queryid='q1'", "queryid='"+qid+"'", 1), 1+ch.Int("workload", 3))
		// the archive may take its time with the final result
		silentAfterExtra = ch.Chance("workload", 1, 2)
	}
	// some applications pass a context that never ends: then only the library's own progress ends the call
	noDeadline := ch.Chance("workload", 1, 3) && !silentAfterExtra
	rc.Describe("helper=%s mode=%d nodeadline=%v reply=%q extra=%q", h.name, mode, noDeadline, clip(reply, 300), clip(extra, 200))
	rc.CaseKey = "helper:" + h.name
	answered := 0
	peer := rc.Spawn("peer", func() {
		d := xml.NewDecoder(e.Peer)
		depth := 0
		for {
			tok, err := d.Token()
			if err != nil {
				return
			}
			switch t := tok.(type) {
			case xml.StartElement:
				depth++
				if depth == 2 && t.Name.Local == "iq" {
					x := Elem{Start: t}
					if ty := x.Attr("type"); ty == "get" || ty == "set" {
						if extra != "" {
							e.PeerWrite(extra)
							if silentAfterExtra {
								simrt.Sleep(4 * time.Second)
							}
						}
						answered++
						if answered > 6 {
							// a peer that repeats a next-page marker for ever keeps any paging iterator busy for ever; this one gives up
							e.PeerWrite(fmt.Sprintf(`<iq type="result" id="%s" from="%s"/>`, escText(x.Attr("id")), c09To))
							continue
						}
						if mode == 4 {
							e.PeerWrite(fmt.Sprintf(`<iq type="error" id="%s" from="%s">%s</iq>`, escText(x.Attr("id")), c09To, mutate(rc, `<error type='cancel'><item-not-found xmlns='urn:ietf:params:xml:ns:xmpp-stanzas'/><text xmlns='urn:ietf:params:xml:ns:xmpp-stanzas' xml:lang='en'>t</text></error>`, ch.Int("mutate", 3), false)))
						} else {
							e.PeerWrite(fmt.Sprintf(`<iq type="result" id="%s" from="%s">%s</iq>`, escText(x.Attr("id")), c09To, reply))
						}
					}
				}
			case xml.EndElement:
				depth--
			}
		}
	})
	peer.Daemon = true
	var herr error
	hdone := false
	var hcancel context.CancelFunc
	ht := rc.Spawn("helper", func() {
		ctx, cancel := context.WithTimeout(e.Ctx, 10*time.Second)
		if noDeadline {
			ctx, cancel = context.WithCancel(e.Ctx)
		}
		hcancel = cancel
		defer cancel()
		herr = h.call(ctx, e.Sess)
		hdone = true
	})
	st := rc.S.Run(func() bool { return ht.Done() }, 200000, time.Minute)
	_ = herr
	if !ht.Done() && e.ServeDone && noDeadline && hcancel != nil {
		// the reply broke the stream and Serve has returned: a request the helper sent afterwards (the next page) can
		// only end through its context, and this one has no deadline. The application ends it when its session is over.
		rc.S.Probes["helper-context-ended-after-serve-returned"]++
		simrt.Settle(hcancel, "h:cancel")
		st = rc.S.Run(func() bool { return ht.Done() }, 200000, time.Minute)
	}
	// c4: every helper call returns a value or an error
	rc.Evals["C09.c4"]++
	if !hdone && ht.Panic == nil {
		rc.Failf("C09.c4", "helper-never-returns:"+h.name, "%s has not returned (%v): stuck %v; reply %q", h.name, st, rc.S.Stuck(), clip(reply, 300))
	}
	rc.Spawn("peer-close", func() { e.PeerWrite(closeTag) })
	rc.S.Run(func() bool { return e.ServeDone }, 20000, time.Minute)
	rc.Evals["C09.c2"]++
	if !e.ServeDone && serveT.Panic == nil && ht.Panic == nil {
		rc.Failf("C09.c2", "serve-wedged-after-helper:"+h.name+":"+wedgeSite(rc), "after %s the peer closed its stream but Serve has not returned: stuck %v; reply %q", h.name, rc.S.Stuck(), clip(reply, 300))
	}
	stuck := rc.Teardown()
	rc.CheckPanics("C09.c1")
	if ht.Panic != nil || serveT.Panic != nil {
		stuck = nil // consequences of the panic reported above (a response that was never closed)
	}
	rc.Check("C09.c3", "stuck-after-teardown", len(stuck) == 0, "tasks still blocked after teardown: %v", stuck)
	_ = simrt.Yield
}

// c09MatchingReply: index of the canonical reply a helper expects (-1: any).
func c09MatchingReply(helper string) int {
	for _, m := range []struct {
		prefix string
		idx    int
	}{
		{"disco.GetInfo", 0}, {"disco.FetchItems", 1}, {"disco.WalkItem", 1}, {"commands.Fetch", 1}, {"IterIQ", 1},
		{"roster.", 2}, {"version.Get", 3}, {"UnmarshalIQ", 3}, {"xtime.Get", 4}, {"upload.GetSlot", 5}, {"blocklist.", 6},
		{"bookmarks.", 7}, {"pubsub.Fetch", 7}, {"history.", 8}, {"muc.GetConfig", 9}, {"bin.Get", 10},
		{"commands.Execute", 11}, {"commands.ForEach", 11}, {"pubsub.Publish", 13}, {"pubsub.GetConfig", 14}, {"pubsub.GetDefaultConfig", 15},
	} {
		if strings.HasPrefix(helper, m.prefix) {
			return m.idx
		}
	}
	return -1
}
