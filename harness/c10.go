package harness

import (
	"bytes"
	"context"
	"encoding/xml"
	"errors"
	"fmt"
	"os"
	"strings"
	"time"

	"mellium.im/xmlstream"
	"mellium.im/xmpp"
	"mellium.im/xmpp/stanza"
	"mellium.im/xmpp/stream"
	"verif.sim/simrt"
	"verif.sim/simrt/simnet"
)

// C10 — closing is idempotent, final and observable.

func init() { register(&Scenario{ID: "C10", Run: runC10}) }

type txCall struct {
	kind       string
	marker     string
	pad        string
	inv, ret   int // scheduler step at invocation / return
	err        error
	done       bool
	handlerRep bool
}

var errBoom = errors.New("harness: handler failure")

type bodyMsg struct {
	XMLName xml.Name `xml:"message"`
	To      string   `xml:"to,attr"`
	Body    string   `xml:"body"`
}

// txKinds are the transmit entry points exercised around Close.
var txKinds = []string{"Send", "SendElement", "Encode", "EncodeElement", "TokenWriter", "SendMessageElement", "SendPresence", "SendIQElement"}

// doTx performs one transmit call of the given kind carrying marker.
func doTx(ctx context.Context, s *xmpp.Session, kind, marker string) error {
	body := xmlstream.Wrap(xmlstream.Token(xml.CharData(marker)), xml.StartElement{Name: xml.Name{Local: "body"}})
	msgStart := xml.StartElement{Name: xml.Name{Local: "message"}, Attr: []xml.Attr{{Name: xml.Name{Local: "to"}, Value: "peer@example.net"}}}
	switch kind {
	case "Send":
		return s.Send(ctx, xmlstream.Wrap(body, msgStart))
	case "SendElement":
		return s.SendElement(ctx, body, msgStart)
	case "Encode":
		return s.Encode(ctx, bodyMsg{To: "peer@example.net", Body: marker})
	case "EncodeElement":
		return s.EncodeElement(ctx, bodyMsg{To: "peer@example.net", Body: marker}, msgStart)
	case "TokenWriter":
		w := s.TokenWriter()
		_, err := xmlstream.Copy(w, xmlstream.Wrap(body, msgStart))
		if err != nil {
			w.Close()
			return err
		}
		return w.Close()
	case "SendMessageElement":
		// error type: not tracked (other message types block until an error reply or the context ends)
		_, err := s.SendMessageElement(ctx, body, stanza.Message{Type: stanza.ErrorMessage})
		return err
	case "SendPresence":
		_, err := s.SendPresence(ctx, stanza.Presence{Type: stanza.ErrorPresence}.Wrap(xmlstream.Wrap(xmlstream.Token(xml.CharData(marker)), xml.StartElement{Name: xml.Name{Local: "status"}})))
		return err
	case "SendIQElement":
		// a result IQ is not tracked either
		_, err := s.SendIQElement(ctx, xmlstream.Wrap(xmlstream.Token(xml.CharData(marker)), xml.StartElement{Name: xml.Name{Space: "urn:verif", Local: "q"}}), stanza.IQ{Type: stanza.ResultIQ})
		return err
	}
	panic("unknown tx kind " + kind)
}

// runC10WriteFault: the connection write that carries the closing tag fails. Some of the tag's bytes went out (or all of
// them, with the error reported afterwards): the stream is closed for good as far as this side can tell, whatever the
// error - nothing more may follow the (partial) tag, every later Close is a no-op on the wire and every later transmit
// call is refused. When the failing write took no byte at all only the invariants that hold under every reading are
// demanded: at most one complete closing tag, nothing after it.
func runC10WriteFault(rc *RC) {
	ch := rc.Ch
	opts := E2Opts{S2S: ch.Chance("workload", 1, 5), Plain: ch.Chance("workload", 1, 4)}
	if !opts.S2S && ch.Chance("workload", 1, 4) {
		opts.WS = true
	}
	strat := rc.S.ConfigureStrategy()
	e := rc.NewE2(opts)
	if e == nil {
		return
	}
	closeStart := strings.TrimSuffix(e.CloseTag(), "/>")
	closeStart = strings.TrimSuffix(closeStart, ">")
	partial := []int{0, 1, 2, len(closeStart), len(e.CloseTag()) - 1, 1 << 30}[ch.Int("faults", 6)]
	once := ch.Chance("faults", 1, 2)
	closeFrom := ch.Int("workload", 3) // who asks first: 0 the application, 1 Serve's own shutdown (peer closes), 2 a handler error
	nBefore, nAfter := ch.Range("workload", 0, 2), ch.Range("workload", 1, 4)
	rc.Describe("close-write-fault strategy=%s ws=%v s2s=%v plain=%v partial=%d once=%v closeFrom=%d before=%d after=%d", strat, opts.WS, opts.S2S, opts.Plain, partial, once, closeFrom, nBefore, nAfter)
	rc.CaseKey = fmt.Sprint("cwf", opts, partial, once, closeFrom)
	e.Serve(xmpp.HandlerFunc(func(t xmlstream.TokenReadEncoder, start *xml.StartElement) error {
		if (Elem{Start: *start}).Attr("id") == "boom" {
			return errBoom
		}
		return nil
	}))
	var calls []*txCall
	var closeErrs []error
	armedAt, afterFirstClose := -1, -1
	mk := 0
	tx := func() {
		mk++
		c := &txCall{kind: txKinds[ch.Int("workload", len(txKinds))], marker: fmt.Sprintf("mk%dx", mk), inv: rc.S.Steps}
		calls = append(calls, c)
		ctx, cancel := context.WithTimeout(e.Ctx, 5*time.Second)
		c.err = doTx(ctx, e.Sess, c.kind, c.marker)
		c.ret, c.done = rc.S.Steps, true
		simrt.Settle(cancel, "h:cancel")
	}
	app := rc.Spawn("app", func() {
		for i := 0; i < nBefore; i++ {
			tx()
		}
		// everything sent so far is on the wire; the next connection write is the one that carries the closing tag
		armedAt = len(e.SUT.Out().Tap)
		e.SUT.WriteErrAt, e.SUT.WriteErr, e.SUT.WritePartial, e.SUT.WriteErrOnce = e.SUT.Writes+1, simnet.ErrInjected, partial, once
		rc.Fire("writeerr")
		switch closeFrom {
		case 0:
			closeErrs = append(closeErrs, e.Sess.Close())
		case 1:
			e.PeerWrite(e.CloseTag())
			simrt.WaitUntil("app:serve-done", func() bool { return e.ServeDone })
		case 2:
			e.PeerWrite(`<message id="boom"/>`)
			simrt.WaitUntil("app:serve-done", func() bool { return e.ServeDone })
		}
		afterFirstClose = len(calls)
		for i := 0; i < nAfter; i++ {
			if ch.Chance("workload", 1, 3) {
				closeErrs = append(closeErrs, e.Sess.Close())
			} else {
				tx()
			}
		}
		closeErrs = append(closeErrs, e.Sess.Close())
		if closeFrom == 0 {
			e.PeerWrite(e.CloseTag())
		}
	})
	st := rc.S.Run(func() bool { return app.Done() && e.ServeDone }, 30000, 5*time.Minute)
	if st == simrt.MaxSteps {
		rc.Infraf("C10: step bound hit")
	}
	tap := e.SUT.Out().Tap
	if armedAt >= 0 && app.Done() {
		rest := tap[min(armedAt, len(tap)):]
		tag := e.CloseTag()
		rc.Evals["C10.c1"]++
		rc.Check("C10.c1", "multiple-close-tags:write-fault", bytes.Count(rest, []byte(tag)) <= 1, "%d complete closing tags on the wire after the closing write failed: %q", bytes.Count(rest, []byte(tag)), tail(tap, 200))
		if i := bytes.Index(rest, []byte(tag)); i >= 0 {
			rc.Evals["C10.c2"]++
			rc.Check("C10.c2", "bytes-after-close:write-fault", len(bytes.TrimSpace(rest[i+len(tag):])) == 0, "bytes after the closing tag: %q", clip(string(rest[i+len(tag):]), 200))
		}
		if partial > 0 {
			// part of the tag is out: that was the end of this stream
			want := tag[:min(partial, len(tag))]
			rc.Evals["C10.c2"]++
			if string(rest) != want {
				rc.Failf("C10.c2", "bytes-after-failed-close-write", "the write of the closing tag failed after %d of its bytes; the connection then carried %q (everything after %q is past the end of the stream)", min(partial, len(tag)), clip(string(rest), 240), want)
			}
			for _, c := range calls[max(afterFirstClose, 0):] {
				rc.Evals["C10.c3"]++
				if c.done && !errors.Is(c.err, xmpp.ErrOutputStreamClosed) {
					rc.Failf("C10.c3", "tx-after-failed-close-not-refused:"+c.kind, "%s(%s) started after a close whose write had failed mid-tag returned %v instead of ErrOutputStreamClosed", c.kind, c.marker, c.err)
				}
			}
		}
	}
	rc.Evals["C10.c4"]++
	if !e.ServeDone {
		rc.Failf("C10.c4", "serve-not-returned:write-fault", "the peer closed its stream but Serve has not returned (status %v, stuck %v)", st, rc.S.Stuck())
	}
	stuck := rc.Teardown()
	rc.CheckPanics("C10.c6")
	rc.Check("C10.c6", "stuck-after-teardown", len(stuck) == 0, "tasks still blocked after teardown: %v", stuck)
}

func runC10(rc *RC) {
	ch := rc.Ch
	if ch.Chance("workload", 1, 6) {
		runC10WriteFault(rc)
		return
	}
	opts := E2Opts{S2S: ch.Chance("workload", 1, 5), Plain: ch.Chance("workload", 1, 4), Chunk: ch.Chance("workload", 1, 2)}
	if !opts.S2S && ch.Chance("workload", 1, 4) {
		opts.WS = true
	} else if !opts.S2S && ch.Chance("workload", 1, 5) {
		// a component's session: its stream header is written by the component negotiator, not by the session
		opts.Comp = true
		rc.Fire("component-session")
	}
	strat := rc.S.ConfigureStrategy()
	e := rc.NewE2(opts)
	if e == nil {
		return
	}
	if ch.Chance("workload", 1, 4) {
		rc.S.PausePerm = 15
	}
	// back-pressure: the peer's receive window is a few dozen bytes and it starts reading late, so that writes (the
	// closing tag too) stay in flight for a while; some senders come with contexts that have ended, end soon, or are
	// cancelled while they transmit
	bp := !opts.Plain && ch.Chance("workload", 1, 5)
	if bp {
		e.SUT.Out().Cap = ch.Range("net", 8, 64)
		drainAfter := time.Duration(ch.Range("workload", 1, 40)) * 50 * time.Millisecond
		dr := rc.Spawn("drainer", func() {
			simrt.Sleep(drainAfter)
			buf := make([]byte, 256)
			for {
				if _, err := e.Peer.Read(buf); err != nil {
					return
				}
			}
		})
		dr.Daemon = true
		rc.Fire("slow-peer")
	}
	nClosers := ch.Range("workload", 1, 3)
	nSenders := ch.Range("workload", 0, 3)
	if bp && nSenders == 0 {
		nSenders = 1
	}
	peerProg := ch.Int("workload", 5) // 0 silent, 1 close after SUT closes, 2 close at t, 3 stream error at t, 4 provoke handler error at t
	peerAt := time.Duration(ch.Range("workload", 0, 40)) * 50 * time.Millisecond
	useDeadline := ch.Chance("workload", 1, 3)
	deadlineIn := time.Duration(ch.Range("workload", 1, 100)) * 100 * time.Millisecond
	nPings := ch.Range("workload", 0, 3)
	// SetCloseDeadline without a Close of our own: the deadline alone must end Serve and close both directions
	deadlineOnly := useDeadline && ch.Chance("workload", 1, 3)
	latePing := deadlineOnly && ch.Chance("workload", 1, 2)
	rc.Describe("deadlineOnly=%v latePing=%v ws=%v strategy=%s s2s=%v plain=%v chunk=%v closers=%d senders=%d peer=%d@%v deadline=%v/%v pings=%d pause=%d", deadlineOnly, latePing, opts.WS, strat, opts.S2S, opts.Plain, opts.Chunk, nClosers, nSenders, peerProg, peerAt, useDeadline, deadlineIn, nPings, rc.S.PausePerm)
	rc.CaseKey = fmt.Sprint(nClosers, nSenders, peerProg, useDeadline, opts)

	var calls []*txCall
	type closeCall struct {
		inv, ret int
		err      error
		done     bool
	}
	var closes []*closeCall
	var deadlineAt time.Duration = -1
	var deadlineSetStep int

	handler := xmpp.HandlerFunc(func(t xmlstream.TokenReadEncoder, start *xml.StartElement) error {
		el := Elem{Start: *start}
		if el.Attr("id") == "boom" {
			return errBoom
		}
		if start.Name.Local == "message" && strings.HasPrefix(el.Attr("id"), "ping") {
			c := &txCall{kind: "handler-reply", marker: "pong-" + el.Attr("id"), inv: rc.S.Steps, handlerRep: true}
			calls = append(calls, c)
			_, err := xmlstream.Copy(t, xmlstream.Wrap(
				xmlstream.Wrap(xmlstream.Token(xml.CharData(c.marker)), xml.StartElement{Name: xml.Name{Local: "body"}}),
				xml.StartElement{Name: xml.Name{Local: "message"}, Attr: []xml.Attr{{Name: xml.Name{Local: "to"}, Value: "peer@example.net"}}}))
			c.err, c.ret, c.done = err, rc.S.Steps, true
		}
		return nil
	})
	e.Serve(handler)

	for i := 0; i < nClosers; i++ {
		i := i
		delay := time.Duration(ch.Range("workload", 0, 20)) * 25 * time.Millisecond
		times := ch.Range("workload", 1, 2)
		setDL := useDeadline && i == 0
		rc.Spawn(fmt.Sprintf("closer%d", i), func() {
			simrt.Sleep(delay)
			if setDL {
				deadlineAt = rc.S.Now() + deadlineIn
				deadlineSetStep = rc.S.Steps
				e.Sess.SetCloseDeadline(time.Now().Add(deadlineIn))
			}
			if deadlineOnly {
				return
			}
			for k := 0; k < times; k++ {
				c := &closeCall{inv: rc.S.Steps}
				closes = append(closes, c)
				c.err = e.Sess.Close()
				c.ret, c.done = rc.S.Steps, true
			}
		})
	}
	mk := 0
	for i := 0; i < nSenders; i++ {
		i := i
		n := ch.Range("workload", 1, 3)
		var plan []*txCall
		var delays []time.Duration
		for k := 0; k < n; k++ {
			mk++
			c := &txCall{kind: txKinds[ch.Int("workload", len(txKinds))], marker: fmt.Sprintf("mk%dx", mk)}
			if ch.Chance("workload", 1, 4) {
				// an element that takes several writes on the connection: a close must not land in the middle of it
				c.pad = strings.Repeat("p", ch.Range("workload", 4000, 13000))
			}
			plan = append(plan, c)
			delays = append(delays, time.Duration(ch.Range("workload", 0, 20))*25*time.Millisecond)
		}
		rc.Spawn(fmt.Sprintf("sender%d", i), func() {
			for k, c := range plan {
				simrt.Sleep(delays[k])
				ctx, cancel := context.WithTimeout(e.Ctx, 5*time.Second)
				if bp {
					switch ch.Int("workload", 4) {
					case 0:
						cancel() // the caller has given up already
					case 1:
						ctx, cancel = context.WithTimeout(e.Ctx, time.Duration(ch.Range("workload", 1, 60))*5*time.Millisecond)
					case 2:
						d, cn := time.Duration(ch.Range("workload", 0, 40))*5*time.Millisecond, cancel
						rc.Spawn("tx-canceller", func() { simrt.Sleep(d); simrt.Settle(cn, "h:cancel") })
					}
				}
				c.inv = rc.S.Steps
				calls = append(calls, c)
				c.err = doTx(ctx, e.Sess, c.kind, c.pad+c.marker)
				c.ret, c.done = rc.S.Steps, true
				simrt.Settle(cancel, "h:cancel")
			}
		})
	}
	var peerActedStep = -1
	var peerActedTime time.Duration
	peer := rc.Spawn("peer", func() {
		for i := 0; i < nPings; i++ {
			simrt.Sleep(time.Duration(ch.Range("workload", 0, 10)) * 40 * time.Millisecond)
			e.PeerWrite(fmt.Sprintf(`<message id="ping%d" from="peer@example.net"><body>x</body></message>`, i))
		}
		if latePing {
			// an element that arrives after the deadline has passed (on transports without read deadlines this is what makes Serve notice)
			simrt.WaitUntil("peer:deadline-set", func() bool { return deadlineAt >= 0 })
			simrt.Sleep(deadlineAt + 50*time.Millisecond - rc.S.Now())
			e.PeerWrite(`<message id="late" from="peer@example.net"><body>x</body></message>`)
		}
		switch peerProg {
		case 0:
			return
		case 1:
			e.WaitWire("sutclose", strings.TrimSuffix(e.CloseTag(), "/>"))
		default:
			if rest := peerAt - rc.S.Now(); rest > 0 {
				simrt.Sleep(rest)
			}
		}
		switch peerProg {
		case 1, 2:
			e.PeerWrite(e.CloseTag())
		case 3:
			if e.WS {
				e.PeerWrite(`<error xmlns="http://etherx.jabber.org/streams"><host-gone xmlns='urn:ietf:params:xml:ns:xmpp-streams'/></error>` + e.CloseTag())
			} else {
				e.PeerWrite(`<stream:error><host-gone xmlns='urn:ietf:params:xml:ns:xmpp-streams'/></stream:error>` + closeTag)
			}
		case 4:
			e.PeerWrite(`<message id="boom"/>`)
		}
		peerActedStep, peerActedTime = rc.S.Steps, rc.S.Now()
	})
	peer.Daemon = true

	st := rc.S.Run(nil, 30000, 10*time.Minute)
	if st == simrt.MaxSteps {
		rc.Infraf("C10: step bound hit")
	}

	// ---- oracles (before teardown) ----
	tap := e.SUT.Out().Tap
	w := e.ParseOut()
	anyClosed := e.ServeDone
	firstCloseRet := -1
	for _, c := range closes {
		if c.done && c.err == nil {
			anyClosed = true
			if firstCloseRet < 0 || c.ret < firstCloseRet {
				firstCloseRet = c.ret
			}
		}
	}
	if e.ServeDone && (firstCloseRet < 0 || e.ServeRetStep < firstCloseRet) {
		firstCloseRet = e.ServeRetStep
	}
	// under back-pressure a transmit call whose context ends is cut off in the middle of its write: part of its element
	// is on the wire and the encoder's buffered writer refuses everything from then on. That is the caller's doing;
	// what it does to the stream is not held against the close machinery
	writeCut := false
	if bp {
		for _, c := range calls {
			if c.done && c.err != nil && !errors.Is(c.err, xmpp.ErrOutputStreamClosed) {
				writeCut = true
			}
		}
		if e.ServeDone && e.ServeErr != nil && strings.Contains(e.ServeErr.Error(), "timeout") {
			writeCut = true // a handler reply ran into the same dead writer
		}
	}
	// nobody put a deadline on this session's writes: a Close that fails with a timeout was hit by somebody else's
	for _, c := range closes {
		rc.Evals["C10.c1"]++
		if c.done && c.err != nil && (errors.Is(c.err, os.ErrDeadlineExceeded) || strings.Contains(c.err.Error(), "timeout")) {
			rc.Failf("C10.c1", "close-hit-by-foreign-deadline", "Close returned %v: the write of the closing tag was ended by a write deadline that belongs to some transmit call's context, not to the close (closing tags on the wire: %d)", c.err, w.NumCloses)
		}
	}
	// c1: at most one closing tag; exactly one once a close path has completed
	rc.Check("C10.c1", "multiple-close-tags", w.NumCloses <= 1, "%d closing tags on the wire: %q", w.NumCloses, tail(tap, 200))
	if anyClosed {
		rc.Check("C10.c1", "no-close-tag", w.NumCloses >= 1, "a close path completed but no closing tag on the wire: %q", tail(tap, 200))
	}
	// c2: nothing follows the first closing tag
	if w.Closed {
		rc.Check("C10.c2", "bytes-after-close", len(bytes.TrimSpace(w.Trailing)) == 0, "bytes after the closing tag: %q", clip(string(w.Trailing), 200))
	}
	if w.Err != nil && !writeCut {
		rc.Failf("C10.c2", "malformed-output", "output stream is not well-formed at offset %d: %v: %q", w.ErrOff, w.Err, tail(tap[:min(len(tap), w.ErrOff+40)], 120))
	}
	// c3: transmit calls relative to Close
	closeOff := len(tap)
	if w.Closed {
		closeOff = w.CloseOff
	}
	for _, c := range calls {
		if !c.done {
			continue
		}
		pos := bytes.Index(tap, []byte(c.marker+"<"))
		startedAfterClose := firstCloseRet >= 0 && c.inv > firstCloseRet
		sigKind := c.kind
		rc.Evals["C10.c3"]++
		if startedAfterClose {
			if !errors.Is(c.err, xmpp.ErrOutputStreamClosed) {
				rc.Failf("C10.c3", "tx-after-close-not-refused:"+sigKind, "%s(%s) started at step %d after a close completed at step %d returned %v instead of ErrOutputStreamClosed", c.kind, c.marker, c.inv, firstCloseRet, c.err)
			}
			if pos >= 0 {
				rc.Failf("C10.c3", "tx-after-close-wrote:"+sigKind, "%s(%s) started after close completed but its bytes are on the wire at %d (closing tag at %d)", c.kind, c.marker, pos, closeOff)
			}
			continue
		}
		if c.err == nil && !writeCut {
			if pos < 0 {
				// data may legitimately sit behind the cut of a failed transport; here there are no transport faults
				rc.Failf("C10.c3", "tx-ok-but-missing:"+sigKind, "%s(%s) returned nil but its element is not on the wire", c.kind, c.marker)
			} else if pos > closeOff {
				rc.Failf("C10.c3", "tx-ok-after-tag:"+sigKind, "%s(%s) returned nil but its element is after the closing tag", c.kind, c.marker)
			}
		}
	}
	// c4: Serve's result
	peerActed := peerActedStep >= 0 && peerProg != 0
	deadlinePassedAtRet := deadlineAt >= 0 && e.ServeDone && e.ServeRetTime >= deadlineAt
	if e.ServeDone {
		rc.Evals["C10.c4"]++
		var se stream.Error
		okPeer := false
		if peerActed && peerActedStep <= e.ServeRetStep {
			switch peerProg {
			case 1, 2:
				okPeer = e.ServeErr == nil
			case 3:
				okPeer = errors.As(e.ServeErr, &se) && se.Err == "host-gone"
			case 4:
				okPeer = errors.Is(e.ServeErr, errBoom)
			}
		}
		okDeadline := deadlinePassedAtRet && e.ServeErr != nil
		if !okPeer && !okDeadline && !writeCut {
			rc.Failf("C10.c4", fmt.Sprintf("serve-result:peer%d:deadline=%v:ws=%v", peerProg, deadlineAt >= 0, opts.WS), "Serve returned %v at t=%v step %d; peer program %d acted at step %d (t=%v); deadline at %v", e.ServeErr, e.ServeRetTime, e.ServeRetStep, peerProg, peerActedStep, peerActedTime, deadlineAt)
		}
	} else {
		// liveness: Serve must have returned if the peer closed / errored, or the deadline passed on a deadline-capable transport
		rc.Evals["C10.c4"]++
		if peerActed {
			rc.Failf("C10.c4", fmt.Sprintf("serve-not-returned:peer%d", peerProg), "peer program %d acted at step %d but Serve has not returned (status %v, stuck %v)", peerProg, peerActedStep, st, rc.S.Stuck())
		} else if deadlineAt >= 0 && (!opts.Plain || latePing) && rc.S.Now() > deadlineAt+time.Minute {
			rc.Failf("C10.c4", "serve-not-returned:deadline", "close deadline %v passed (now %v, set at step %d) on a deadline-capable transport but Serve has not returned; stuck %v", deadlineAt, rc.S.Now(), deadlineSetStep, rc.S.Stuck())
		}
	}
	// c5: after Serve returned both directions are closed and reads fail with the input-closed error
	if e.ServeDone {
		var tokErr error
		var state xmpp.SessionState
		post := rc.Spawn("post", func() {
			state = e.Sess.State()
			r := e.Sess.TokenReader()
			_, tokErr = r.Token()
			r.Close()
		})
		rc.S.Run(func() bool { return post.Done() }, 2000, time.Minute)
		if !post.Done() {
			rc.Failf("C10.c5", "post-read-blocked", "TokenReader().Token() after Serve returned did not return; stuck %v", rc.S.Stuck())
		} else {
			rc.Check("C10.c5", "closed-bits", state&xmpp.InputStreamClosed != 0 && state&xmpp.OutputStreamClosed != 0, "state after Serve returned: %v", state)
			rc.Check("C10.c5", "read-after-serve", errors.Is(tokErr, xmpp.ErrInputStreamClosed), "Token() after Serve returned: %v, want ErrInputStreamClosed", tokErr)
		}
	}
	// c6: no panic, nothing stuck after teardown
	stuck := rc.Teardown()
	rc.CheckPanics("C10.c6")
	rc.Check("C10.c6", "stuck-after-teardown", len(stuck) == 0, "tasks still blocked after teardown: %v", stuck)
}

func tail(b []byte, n int) string {
	if len(b) > n {
		b = b[len(b)-n:]
	}
	return string(b)
}

func clip(s string, n int) string {
	if len(s) > n {
		return s[:n] + "…"
	}
	return s
}
