package harness

import (
	"net"
	"bytes"
	"context"
	"encoding/xml"
	"errors"
	"fmt"
	"io"
	"os"
	"strings"
	"time"

	"mellium.im/sasl"
	"mellium.im/xmpp"
	"mellium.im/xmpp/jid"
	"mellium.im/xmpp/stanza"
	"mellium.im/xmpp/stream"
	"mellium.im/xmpp/websocket"
	"verif.sim/simrt"
	"verif.sim/simrt/simnet"
)

// C12 — negotiation carries addresses and identifiers faithfully and checks them.

func init() { register(&Scenario{ID: "C12", Run: runC12}) }

func genJID(rc *RC, label string, wantRes bool) jid.JID {
	ch := rc.Ch
	locals := []string{"me", "juliet", "a.b", "x_1", "münchen", "ιωάννης", "user+tag", "n0", "50%25", "%s", "a\\20b", ""}
	domains := []string{"example.net", "im.example.org", "müller.example", "xn--mller-kva.example", "a.b.c.example", "localhost"}
	ress := []string{"res", "phone", "o'brien", `say "hi"`, "a&b", "a<b", "b>a", "x y", "<&'\">", "ünï", "r/with/slash", "7f'\"&<>", "50%off", "100%", "%d%v%!", "a\\b", "tab\there"}
	for tries := 0; tries < 6; tries++ {
		l, d, r := locals[ch.Int(label, len(locals))], domains[ch.Int(label, len(domains))], ""
		if wantRes && ch.Chance(label, 5, 6) {
			r = ress[ch.Int(label, len(ress))]
		}
		if j, err := jid.New(l, d, r); err == nil {
			return j
		}
	}
	return jid.MustParse("me@example.net/res")
}

// parseHeader strictly parses the first start element of a side's output.
func parseHeader(tap []byte) (xml.StartElement, error) {
	d := xml.NewDecoder(bytes.NewReader(tap))
	for {
		tok, err := d.Token()
		if err != nil {
			return xml.StartElement{}, err
		}
		if st, ok := tok.(xml.StartElement); ok {
			return st.Copy(), nil
		}
	}
}

func attrOf(st xml.StartElement, local string) (string, bool) {
	for _, a := range st.Attr {
		if a.Name.Local == local && (a.Name.Space == "" || local == "lang") {
			return a.Value, true
		}
	}
	return "", false
}

func runC12(rc *RC) {
	ch := rc.Ch
	if ch.Chance("workload", 1, 2) {
		rc.Net.Chunk = func() int { return 1 + ch.Int("net", 100) }
	}
	switch sub := ch.Int("workload", 7); sub {
	case 6:
		c12Concurrent(rc)
	case 0, 1:
		c12RoundTrip(rc)
	case 2:
		c12Headers(rc, false)
	case 3:
		c12Headers(rc, true)
	case 4:
		c12BindReceiver(rc)
	default:
		c12Bind(rc)
	}
	stuck := rc.Teardown()
	rc.CheckPanics("C12.c1")
	rc.Check("C12.c1", "stuck-after-teardown", len(stuck) == 0, "tasks still blocked after teardown: %v", stuck)
}

// (a) real initiator <-> real receiver with generated addresses, languages and bind callbacks.
func c12RoundTrip(rc *RC) {
	ch := rc.Ch
	ws := ch.Chance("workload", 1, 4)
	origin := genJID(rc, "workload", true)
	langs := []string{"", "en", "de-CH", "x'y", "a\"b", "zh-Hant"}
	cLang, sLang := langs[ch.Int("workload", len(langs))], langs[ch.Int("workload", len(langs))]
	bindMode := ch.Int("workload", 4) // 0 BindResource, 1 custom address, 2 custom stanza error, 3 custom address in another domain/local
	var assigned jid.JID
	switch bindMode {
	case 1:
		assigned, _ = origin.Bare().WithResource("srv-" + []string{"x", "o'k", "a&b", "<r>"}[ch.Int("workload", 4)])
	case 3:
		assigned = genJID(rc, "workload", true)
	}
	rc.Describe("roundtrip ws=%v origin=%q clang=%q slang=%q bind=%d assigned=%q", ws, origin.String(), cLang, sLang, bindMode, assigned.String())
	rc.CaseKey = fmt.Sprint("rt", ws, bindMode)
	cc, sc := rc.Net.Pipe("cli", "srv")
	ctx, cancel := context.WithTimeout(context.Background(), time.Minute)
	rc.OnCleanup(func() { cancel(); cc.Close(); sc.Close() })
	var cbCalls []string
	bindF := xmpp.BindResource()
	if bindMode > 0 {
		bindF = xmpp.BindCustom(func(j jid.JID, res string) (jid.JID, error) {
			cbCalls = append(cbCalls, j.String()+"|"+res)
			if bindMode == 2 {
				return jid.JID{}, stanza.Error{Type: stanza.Cancel, Condition: stanza.Conflict}
			}
			return assigned, nil
		})
	}
	neg := func(lang string, fs ...xmpp.StreamFeature) xmpp.Negotiator {
		cf := func(*xmpp.Session, *xmpp.StreamConfig) xmpp.StreamConfig {
			return xmpp.StreamConfig{Lang: lang, Features: fs}
		}
		if ws {
			return websocket.Negotiator(cf)
		}
		return xmpp.NewNegotiator(cf)
	}
	// a server builds its feature values once and uses them for every connection
	srvNeg := neg(sLang, xmpp.SASLServer(func(*sasl.Negotiator) bool { return true }, sasl.Plain), bindF)
	var cs, ss *xmpp.Session
	var cerr, serr error
	cd, sd := false, false
	rc.Spawn("client", func() {
		cs, cerr = xmpp.NewSession(ctx, origin.Domain(), origin, cc, xmpp.Secure, neg(cLang, xmpp.SASL("", "pass", sasl.Plain), xmpp.BindResource()))
		cd = true
	})
	rc.Spawn("server", func() {
		ss, serr = xmpp.ReceiveSession(ctx, sc, xmpp.Secure, srvNeg)
		sd = true
	})
	rc.S.Run(func() bool { return cd && sd }, 60000, 2*time.Minute)
	c2s, s2c := cc.Out().Tap, sc.Out().Tap
	// c1: every header is well-formed XML
	hdrs := func(tap []byte, who string) []xml.StartElement {
		var out []xml.StartElement
		open := "<stream:stream"
		if ws {
			open = "<open "
		}
		rest := tap
		for {
			i := bytes.Index(rest, []byte(open))
			if i < 0 {
				return out
			}
			rest = rest[i:]
			rc.Evals["C12.c1"]++
			st, err := parseHeader(rest)
			if err != nil {
				end := bytes.IndexByte(rest, '>')
				if end < 0 {
					end = len(rest) - 1
				}
				rc.Failf("C12.c1", "header-not-well-formed:"+who, "%s sent a stream header that is not well-formed XML (%v): %s", who, err, clip(string(rest[:end+1]), 300))
				return out
			}
			out = append(out, st)
			rest = rest[len(open):]
		}
	}
	ch1, sh1 := hdrs(c2s, "initiator"), hdrs(s2c, "receiver")
	// c2: the peer recovers what was sent
	if cd && sd && cerr == nil && serr == nil && len(ch1) > 0 && len(sh1) > 0 {
		ci, si := cs.In(), ss.In()
		rc.Evals["C12.c2"]++
		cmp := func(what string, a, b any) {
			if fmt.Sprint(a) != fmt.Sprint(b) {
				rc.Failf("C12.c2", "header-field-not-recovered:"+what, "stream header field %s: sent %q, the peer recovered %q", what, fmt.Sprint(a), fmt.Sprint(b))
			}
		}
		// what was sent: the configuration and the header attributes on the wire
		chd, shd := ch1[len(ch1)-1], sh1[len(sh1)-1]
		wire := func(h xml.StartElement, k string) string { v, _ := attrOf(h, k); return v }
		cmp("c2s.to", origin.Domain().String(), si.To.String())
		cmp("c2s.to-wire", wire(chd, "to"), si.To.String())
		cmp("c2s.from", origin.String(), si.From.String())
		cmp("c2s.version", "1.0", si.Version.String())
		cmp("s2c.id", wire(shd, "id"), ci.ID)
		cmp("s2c.from", wire(shd, "from"), ci.From.String())
		cmp("s2c.from-cfg", origin.Domain().String(), ci.From.String())
		cmp("s2c.version", "1.0", ci.Version.String())
		if !ws {
			cmp("c2s.xmlns", "jabber:client", si.XMLNS)
			cmp("s2c.xmlns", "jabber:client", ci.XMLNS)
		}
		cmp("c2s.lang", cLang, si.Lang)
		cmp("s2c.lang", sLang, ci.Lang)
		if ci.ID == "" {
			rc.Failf("C12.c3", "initiator-accepted-header-without-id", "initiator accepted a header without a stream id")
		}
	} else if cd && sd && (cerr != nil || serr != nil) && bindMode != 2 {
		// a fault-free handshake between the library's own two halves must succeed for every valid address
		rc.Failf("C12.c2", "handshake-failed", "handshake between real initiator and receiver failed for origin %q: client %v, server %v", origin.String(), cerr, serr)
	}
	// c6/c7: bind request and reply on the wire
	cw, sw := ParseWire(c2s[max(0, bytes.LastIndex(c2s, []byte("<stream:stream"))):]), ParseWire(s2c[max(0, bytes.LastIndex(s2c, []byte("<stream:stream"))):])
	if ws {
		return // the websocket framing has no enclosing element; bind is checked on TCP framing
	}
	var reqID, reqRes string
	firstAssigned := ""
	defer func() {
		// a second connection of the same account served with the same feature values gets a fresh resource
		if firstAssigned == "" || cerr != nil || serr != nil || !ch.Chance("workload", 1, 2) {
			return
		}
		cc2, sc2 := rc.Net.Pipe("cli2", "srv2")
		rc.OnCleanup(func() { cc2.Close(); sc2.Close() })
		var c2err, s2err error
		c2d, s2d := false, false
		rc.Spawn("client2", func() {
			_, c2err = xmpp.NewSession(ctx, origin.Domain(), origin, cc2, xmpp.Secure, neg(cLang, xmpp.SASL("", "pass", sasl.Plain), xmpp.BindResource()))
			c2d = true
		})
		rc.Spawn("server2", func() {
			_, s2err = xmpp.ReceiveSession(ctx, sc2, xmpp.Secure, srvNeg)
			s2d = true
		})
		rc.S.Run(func() bool { return c2d && s2d }, 60000, 2*time.Minute)
		if !c2d || !s2d || c2err != nil || s2err != nil {
			rc.Failf("C12.c2", "second-handshake-failed", "second session with the same server feature values: client %v, server %v", c2err, s2err)
			return
		}
		t2 := sc2.Out().Tap
		for _, e := range ParseWire(t2[max(0, bytes.LastIndex(t2, []byte("<stream:stream"))):]).Elems {
			if e.Start.Name.Local == "iq" && e.Attr("type") == "result" {
				rc.Evals["C12.c7"]++
				second := strings.TrimSpace(e.Text())
				rc.Check("C12.c7", "bind-resource-not-fresh", second != firstAssigned, "two sessions of %q served with the same BindResource value were both assigned %q", origin.Bare().String(), second)
			}
		}
	}()
	reqSeen, resElem := false, false
	for _, e := range cw.Elems {
		if e.Start.Name.Local != "iq" {
			continue
		}
		for i, t := range e.Toks {
			if st, ok := t.(xml.StartElement); ok && st.Name.Local == "bind" {
				reqSeen, reqID = true, e.Attr("id")
				for _, t2 := range e.Toks[i:] {
					if s2, ok := t2.(xml.StartElement); ok && s2.Name.Local == "resource" {
						resElem = true
					}
				}
				reqRes = strings.TrimSpace(e.Text())
			}
		}
	}
	if reqSeen {
		rc.Evals["C12.c6"]++
		want := origin.Resourcepart()
		if want == "" {
			rc.Check("C12.c6", "resource-requested-but-none-wanted", !resElem || reqRes == "", "initiator has no resourcepart but asked for %q", reqRes)
		} else if reqRes != want {
			rc.Failf("C12.c6", "wrong-resource-requested", "initiator's address is %q but its bind request asks for resource %q (resource element present: %v)", origin.String(), reqRes, resElem)
		}
		// the reply
		for _, e := range sw.Elems {
			if e.Start.Name.Local != "iq" || (e.Attr("type") != "result" && e.Attr("type") != "error") {
				continue
			}
			rc.Evals["C12.c7"]++
			rc.Check("C12.c7", "bind-reply-id", e.Attr("id") == reqID, "bind reply has id %q, request had %q", e.Attr("id"), reqID)
			got := strings.TrimSpace(e.Text())
			switch bindMode {
			case 0:
				j, err := jid.Parse(got)
				if err != nil || !j.Bare().Equal(origin.Bare()) || j.Resourcepart() == "" {
					rc.Failf("C12.c7", "bind-reply-random-resource", "receiver without callback replied %q, want a random resource of %q", got, origin.Bare().String())
				}
				firstAssigned = got
			case 1, 3:
				rc.Check("C12.c7", "bind-reply-callback-address", got == assigned.String(), "receiver replied %q, the callback returned %q", got, assigned.String())
			case 2:
				rc.Check("C12.c7", "bind-reply-callback-error", e.Attr("type") == "error" || bytes.Contains(s2c, []byte("<conflict")), "callback returned a stanza error but the reply is %s", clip(string(s2c[len(s2c)-min(len(s2c), 200):]), 200))
			}
			if bindMode != 2 && cd && cerr == nil {
				rc.Evals["C12.c6"]++
				if j, err := jid.Parse(got); err == nil && !cs.LocalAddr().Equal(j) {
					rc.Failf("C12.c6", "assigned-address-not-adopted", "server assigned %q but the initiator reports LocalAddr %q", got, cs.LocalAddr().String())
				}
			}
			if bindMode > 0 && len(cbCalls) > 0 {
				rc.Check("C12.c7", "callback-arguments", strings.HasSuffix(cbCalls[0], "|"+reqRes), "bind callback was called with %q, the request asked for %q", cbCalls[0], reqRes)
			}
		}
	}
}

// (b) scripted headers: acceptance predicate, stream errors in place of a header, changed addresses after a restart.
func c12Headers(rc *RC, sutReceives bool) {
	ch := rc.Ch
	ws := ch.Chance("workload", 1, 4)
	type hdrCase struct {
		name           string
		accept, strErr bool
		make           func(from, to string) string
	}
	// decoy: attributes in a foreign namespace (or prefix declarations) whose local names are those of the real
	// header attributes; they come last and must mean nothing
	decoy := ""
	mk := func(el, pre, nsDecl, contentNS, version, id string) func(from, to string) string {
		return func(from, to string) string {
			var sb strings.Builder
			if ws {
				fmt.Fprintf(&sb, `<%s xmlns="%s"`, el, nsDecl)
			} else {
				fmt.Fprintf(&sb, `<?xml version='1.0'?><%s:%s xmlns='%s' xmlns:%s='%s'`, pre, el, contentNS, pre, nsDecl)
			}
			if version != "-" {
				fmt.Fprintf(&sb, ` version='%s'`, version)
			}
			if id != "" {
				fmt.Fprintf(&sb, ` id='%s'`, id)
			}
			if from != "" {
				fmt.Fprintf(&sb, ` from='%s'`, from)
			}
			if to != "" {
				fmt.Fprintf(&sb, ` to='%s'`, to)
			}
			sb.WriteString(decoy)
			if ws {
				sb.WriteString("/>")
			} else {
				sb.WriteString(">")
			}
			return sb.String()
		}
	}
	good, goodNS, el := "stream", nsStream, "stream"
	if ws {
		goodNS, el = "urn:ietf:params:xml:ns:xmpp-framing", "open"
	}
	_ = good
	cases := []hdrCase{
		{"valid", true, false, mk(el, "stream", goodNS, "jabber:client", "1.0", "sid1")},
		{"valid-other-prefix", !ws || true, false, mk(el, "s", goodNS, "jabber:client", "1.0", "sid1")},
		{"wrong-local-name", false, false, mk(el+"x", "stream", goodNS, "jabber:client", "1.0", "sid1")},
		{"wrong-namespace", false, false, mk(el, "stream", "urn:wrong", "jabber:client", "1.0", "sid1")},
		{"version-missing", false, false, mk(el, "stream", goodNS, "jabber:client", "-", "sid1")},
		{"version-0.9", false, false, mk(el, "stream", goodNS, "jabber:client", "0.9", "sid1")},
		{"version-1.1", false, false, mk(el, "stream", goodNS, "jabber:client", "1.1", "sid1")},
		{"version-2.0", false, false, mk(el, "stream", goodNS, "jabber:client", "2.0", "sid1")},
		{"version-garbage", false, false, mk(el, "stream", goodNS, "jabber:client", "abc", "sid1")},
		{"version-257.0", false, false, mk(el, "stream", goodNS, "jabber:client", "257.0", "sid1")},
		{"version-1.256", false, false, mk(el, "stream", goodNS, "jabber:client", "1.256", "sid1")},
		{"version-huge", false, false, mk(el, "stream", goodNS, "jabber:client", "4294967297.18446744073709551616", "sid1")},
		{"version-1.0.0", false, false, mk(el, "stream", goodNS, "jabber:client", "1.0.0", "sid1")},
		{"version-signed", false, false, mk(el, "stream", goodNS, "jabber:client", "+1.0", "sid1")},
		{"id-missing", sutReceives, false, mk(el, "stream", goodNS, "jabber:client", "1.0", "")},
		{"content-ns-unsupported", ws, false, mk(el, "stream", goodNS, "jabber:foo", "1.0", "sid1")},
		{"id-only-as-prefix-declaration", sutReceives, false, func(from, to string) string {
			decoy = ` xmlns:id='sid1'`
			defer func() { decoy = "" }()
			return mk(el, "stream", goodNS, "jabber:client", "1.0", "")(from, to)
		}},
		{"version-only-in-foreign-namespace", false, false, func(from, to string) string {
			decoy = ` xmlns:x='urn:x' x:version='1.0'`
			defer func() { decoy = "" }()
			return mk(el, "stream", goodNS, "jabber:client", "-", "sid1")(from, to)
		}},
		{"stream-prefix-undeclared", false, false, func(from, to string) string {
			// the header stands on its own: a prefix that only the previous stream's header had declared means nothing
			if ws {
				return mk(el, "stream", "urn:wrong", "jabber:client", "1.0", "sid1")(from, to)
			}
			h := mk(el, "stream", goodNS, "jabber:client", "1.0", "sid1")(from, to)
			return strings.Replace(h, ` xmlns:stream='`+goodNS+`'`, ``, 1)
		}},
		{"stream-error", false, true, func(from, to string) string {
			return `<stream:error xmlns:stream='http://etherx.jabber.org/streams'><host-unknown xmlns='urn:ietf:params:xml:ns:xmpp-streams'/></stream:error>`
		}},
	}
	hc := cases[ch.Int("workload", len(cases))]
	restartCase := ch.Chance("workload", 1, 3)
	// after the restart: 0 same addresses, 1 different from, 2 different to, 3/4 from/to differing only in the resourcepart,
	// 5/6 from/to replaced by an address of the same length and shape (one letter of the local- or domainpart differs)
	// 7/8 from/to replaced by an address made of the same characters with the '@' in another place
	changed := ch.Int("workload", 9)
	anonFirst := ch.Chance("workload", 1, 3) && sutReceives && restartCase
	if anonFirst && changed%2 == 1 {
		changed++ // nothing the restarted stream says about its origin is a change; what it says about its addressee is
	}
	moveAt := func(a string) string {
		// me@example.net -> meexample.net, example.net -> exam@ple.net
		if i := strings.IndexByte(a, '@'); i > 0 {
			return a[:i] + a[i+1:]
		}
		return a[:4] + "@" + a[4:]
	}
	sameShape := func(a string) string {
		// example.net -> example.org, me@example.net -> ne@example.net
		if i := strings.IndexByte(a, '@'); i > 0 {
			return string(a[0]+1) + a[1:]
		}
		if strings.HasSuffix(a, ".net") {
			return strings.TrimSuffix(a, ".net") + ".org"
		}
		return string(a[0]+1) + a[1:]
	}
	useDecoy := ch.Chance("workload", 1, 2)
	rc.Describe("headers sutReceives=%v ws=%v case=%s restart=%v changed=%d decoy=%v", sutReceives, ws, hc.name, restartCase, changed, useDecoy)
	rc.CaseKey = fmt.Sprint("hdr", sutReceives, ws, hc.name, restartCase, changed)
	cc, sc := rc.Net.Pipe("cli", "srv")
	ctx, cancel := context.WithTimeout(context.Background(), 30*time.Second)
	rc.OnCleanup(func() { cancel(); cc.Close(); sc.Close() })
	origin := jid.MustParse("me@example.net")
	// the SUT's features: a restarting synthetic feature, then a mandatory final one
	restartF := fcfg{idx: 0, ns: "urn:verif:r", add: xmpp.Secure, proh: xmpp.Secure, req: true, restart: true}
	side := &c01Side{name: "sut", conn: &trackConn{Conn: cc}, ws: ws}
	peerConn := sc
	if sutReceives {
		side = &c01Side{name: "sut", conn: &trackConn{Conn: sc}, recv: true, ws: ws}
		peerConn = cc
	}
	fs := []xmpp.StreamFeature{side.feature(rc, restartF), finFeature(nil)}
	fs[1].Necessary = xmpp.Secure
	cf := func(*xmpp.Session, *xmpp.StreamConfig) xmpp.StreamConfig { return xmpp.StreamConfig{Features: fs} }
	neg := xmpp.NewNegotiator(cf)
	if ws {
		neg = websocket.Negotiator(cf)
	}
	var sess *xmpp.Session
	var err error
	done := false
	rc.Spawn("sut", func() {
		if sutReceives {
			sess, err = xmpp.ReceiveSession(ctx, side.conn, 0, neg)
		} else {
			sess, err = xmpp.NewSession(ctx, origin.Domain(), origin, side.conn, 0, neg)
		}
		done = true
	})
	_ = sess
	out := side.conn.Conn.Out()
	wait := func(site, sub string, n int) {
		simrt.WaitUntil(site, func() bool { return done || bytes.Count(out.Tap, []byte(sub)) >= n })
	}
	featList := func(ns string) string {
		if ws {
			return fmt.Sprintf(`<features xmlns="http://etherx.jabber.org/streams"><f xmlns='%s'><required/></f></features>`, ns)
		}
		return fmt.Sprintf(`<stream:features><f xmlns='%s'><required/></f></stream:features>`, ns)
	}
	valid := cases[0].make
	secondSent := false
	hangUp := ch.Chance("script", 1, 2)
	rc.Spawn("script", func() {
		first := hc.make
		if restartCase {
			first = valid
		}
		if sutReceives {
			// scripted initiator; in a third of the restart cases its first header does not say who it is (a client may
			// leave that out before the stream is secured): the receiver then adopts the origin of the restarted stream,
			// but whom the stream is addressed to was fixed by the first header
			if anonFirst {
				io.WriteString(peerConn, first("", "example.net"))
				rc.Fire("first-header-without-from")
			} else {
				io.WriteString(peerConn, first(origin.String(), "example.net"))
			}
			if !restartCase {
				if hc.strErr && hangUp {
					peerConn.Close()
					rc.Fire("hang-up-after-stream-error")
				}
				return
			}
			wait("script:features", "urn:verif:r", 1)
			io.WriteString(peerConn, `<f xmlns='urn:verif:r'/>`)
			wait("script:ok", "<ok", 1)
			f, t := origin.String(), "example.net"
			switch changed {
			case 1:
				f = "mallory@example.net"
			case 2:
				t = "evil.example.org"
			case 3:
				f = origin.String() + "/other"
			case 4:
				t = "example.net/other"
			case 5:
				f = sameShape(origin.String())
			case 6:
				t = sameShape("example.net")
			case 7:
				f = moveAt(origin.String())
			case 8:
				t = moveAt("example.net")
			}
			if changed != 0 && useDecoy {
				decoy = fmt.Sprintf(` xmlns:x='urn:x' x:from='%s' x:to='%s'`, origin.String(), "example.net")
			}
			secondSent = true
			io.WriteString(peerConn, hc.make(f, t))
			decoy = ""
			if hc.strErr && hangUp {
				peerConn.Close()
				rc.Fire("hang-up-after-stream-error")
			}
			return
		}
		// scripted receiver
		hdrOpen := "<stream:stream"
		if ws {
			hdrOpen = "<open "
		}
		wait("script:hdr", hdrOpen, 1)
		simrt.WaitUntil("script:hdrend", func() bool { return done || bytes.HasSuffix(out.Tap, []byte(">")) })
		io.WriteString(peerConn, first("example.net", origin.String()))
		if !restartCase && hc.strErr && hangUp {
			// the peer hangs up right after its stream error: whatever the initiator still writes (its closing tag) fails
			peerConn.Close()
			rc.Fire("hang-up-after-stream-error")
			return
		}
		if !restartCase {
			if hc.accept {
				io.WriteString(peerConn, featList("urn:verif:none"))
			}
			return
		}
		io.WriteString(peerConn, featList("urn:verif:r"))
		wait("script:sel", "urn:verif:r", 1)
		io.WriteString(peerConn, `<ok xmlns='urn:verif:r'/>`)
		wait("script:hdr2", hdrOpen, 2)
		f, t := "example.net", origin.String()
		switch changed {
		case 1:
			f = "evil.example.org"
		case 2:
			t = "mallory@example.net"
		case 3:
			f = "example.net/other"
		case 4:
			t = origin.String() + "/other"
		case 5:
			f = sameShape("example.net")
		case 6:
			t = sameShape(origin.String())
		case 7:
			f = moveAt("example.net")
		case 8:
			t = moveAt(origin.String())
		}
		if changed != 0 && useDecoy {
			decoy = fmt.Sprintf(` xmlns:x='urn:x' x:from='%s' x:to='%s'`, "example.net", origin.String())
		}
		secondSent = true
		io.WriteString(peerConn, hc.make(f, t))
		decoy = ""
		if hc.strErr && hangUp {
			peerConn.Close()
			rc.Fire("hang-up-after-stream-error")
			return
		}
		if hc.accept && changed == 0 {
			io.WriteString(peerConn, featList("urn:verif:none"))
		}
	})
	rc.S.Run(func() bool { return done }, 60000, time.Minute)
	if !done {
		return
	}
	var se stream.Error
	if !restartCase {
		rc.Evals["C12.c3"]++
		switch {
		case hc.strErr:
			rc.Check("C12.c4", "stream-error-not-returned", errors.As(err, &se) && se.Err == "host-unknown", "a stream error was sent in place of the header; the constructor returned %v", err)
		case !hc.accept:
			rc.Check("C12.c3", "bad-header-accepted:"+hc.name, err != nil && !side.negotiatedAnything(), "header case %q must be rejected, constructor returned %v (features negotiated: %v)", hc.name, err, side.negotiatedAnything())
		default:
			// accepted headers: the error, if any, must not be about the header
			if err != nil && (strings.Contains(err.Error(), "expected") || errors.As(err, &se) && (se.Err == "unsupported-version" || se.Err == "invalid-namespace" || se.Err == "bad-format")) {
				rc.Failf("C12.c3", "good-header-rejected:"+hc.name, "header case %q must be accepted, constructor returned %v", hc.name, err)
			}
		}
		return
	}
	if !secondSent {
		return
	}
	rc.Evals["C12.c5"]++
	negs := 0
	for _, e := range side.log {
		if e.kind == "negotiate" {
			negs++
		}
	}
	switch {
	case hc.strErr:
		rc.Check("C12.c4", "stream-error-after-restart-not-returned", errors.As(err, &se) && se.Err == "host-unknown", "a stream error was sent in place of the restarted header; the constructor returned %v", err)
	case changed != 0 && hc.accept:
		// a rejection is an error from the header check itself; running into the
		// context's deadline (or answering with a second header of its own) means
		// the changed header was accepted and negotiation went on
		hdrOpen := "<stream:stream"
		if ws {
			hdrOpen = "<open "
		}
		timedOut := errors.Is(err, context.DeadlineExceeded) || errors.Is(err, os.ErrDeadlineExceeded)
		answered := sutReceives && bytes.Count(out.Tap, []byte(hdrOpen)) >= 2
		rc.Check("C12.c5", fmt.Sprintf("changed-address-accepted:%d:recv=%v", changed, sutReceives), err != nil && !timedOut && !answered, "after the restart the peer's header named different addresses (changed=%d) but it was not rejected: constructor returned %v, answered with a new header: %v", changed, err, answered)
	case !hc.accept:
		// as above: running into the deadline while waiting for what follows the
		// header, or going on to advertise features on the new stream, is acceptance
		hdrOpen, featOpen := "<stream:stream", "<stream:features"
		if ws {
			hdrOpen, featOpen = "<open ", "<features"
		}
		timedOut := errors.Is(err, context.DeadlineExceeded) || errors.Is(err, os.ErrDeadlineExceeded)
		wentOn := sutReceives && bytes.Count(out.Tap, []byte(hdrOpen)) >= 2 && bytes.Count(out.Tap, []byte(featOpen)) >= 2
		rc.Check("C12.c3", "bad-restart-header-accepted:"+hc.name, err != nil && !timedOut && !wentOn, "restart header case %q must be rejected; constructor returned %v, advertised features on the new stream: %v", hc.name, err, wentOn)
	}
}

func (sd *c01Side) negotiatedAnything() bool {
	for _, e := range sd.log {
		if e.kind == "negotiate" {
			return true
		}
	}
	return false
}

// (e) several sessions of one process open their streams at the same time, each on a connection whose peer takes the
// header a few bytes at a time (the write blocks half way): every peer must still read the header of its own session.
func c12Concurrent(rc *RC) {
	ch := rc.Ch
	strat := rc.S.ConfigureStrategy()
	n := ch.Range("workload", 2, 4)
	type cs struct {
		origin, location jid.JID
		lang             string
		recv             bool
		sut, peer        *simnet.Conn
		done, peerDone   bool
		err              error
		hdr              []byte
		featNS           string
		bind             bool
		boundJID         string
	}
	ctx, cancel := context.WithTimeout(context.Background(), time.Minute)
	rc.OnCleanup(cancel)
	var all []*cs
	langs := []string{"", "en", "de-CH", "x-verif"}
	// in half of the runs all sessions go through ONE negotiator value, as a server's sessions do, whose configuration
	// function looks the session's features up by its connection: every receiving session has a feature of its own
	shared := ch.Chance("workload", 1, 2)
	// … and in a third of the runs the receiving sessions offer resource binding (one feature value for all of them):
	// every client that asks for any resource must get one of its own
	binds := ch.Chance("workload", 1, 3)
	bindF := xmpp.BindResource()
	byConn := map[net.Conn]*cs{}
	sharedNeg := xmpp.NewNegotiator(func(s *xmpp.Session, _ *xmpp.StreamConfig) xmpp.StreamConfig {
		if s == nil {
			return xmpp.StreamConfig{}
		}
		c := byConn[s.Conn()]
		if c == nil {
			return xmpp.StreamConfig{}
		}
		if c.recv && c.bind {
			return xmpp.StreamConfig{Lang: c.lang, Features: []xmpp.StreamFeature{bindF}}
		}
		if c.recv {
			return xmpp.StreamConfig{Lang: c.lang, Features: []xmpp.StreamFeature{finFeatureNS(c.featNS, nil)}}
		}
		return xmpp.StreamConfig{Lang: c.lang}
	})
	for i := 0; i < n; i++ {
		c := &cs{origin: genJID(rc, "workload", true), lang: langs[ch.Int("workload", len(langs))], recv: ch.Chance("workload", 1, 3)}
		c.location = c.origin.Domain()
		c.sut, c.peer = rc.Net.Pipe(fmt.Sprintf("sut%d", i), fmt.Sprintf("peer%d", i))
		c.sut.Out().Cap = ch.Range("net", 3, 40) // the peer's receive window: a header takes many rounds
		sut, peer := c.sut, c.peer
		rc.OnCleanup(func() { sut.Close(); peer.Close() })
		all = append(all, c)
		c.featNS = "urn:verif:fin"
		c.bind = binds && c.recv
		if c.bind {
			c.origin = jid.MustParse("me@example.net") // several connections of one account
			c.location = c.origin.Domain()
		}
		neg := xmpp.NewNegotiator(func(*xmpp.Session, *xmpp.StreamConfig) xmpp.StreamConfig {
			if c.bind {
				return xmpp.StreamConfig{Lang: c.lang, Features: []xmpp.StreamFeature{bindF}}
			}
			if c.recv {
				return xmpp.StreamConfig{Lang: c.lang, Features: []xmpp.StreamFeature{finFeature(nil)}}
			}
			return xmpp.StreamConfig{Lang: c.lang}
		})
		if shared {
			c.featNS = fmt.Sprintf("urn:verif:fin%d", i)
			byConn[c.sut] = c
			neg = sharedNeg
			rc.Fire("shared-negotiator")
		}
		rc.Spawn(fmt.Sprintf("sut%d", i), func() {
			if c.recv {
				_, c.err = xmpp.ReceiveSession(ctx, c.sut, xmpp.Secure|xmpp.Authn, neg)
			} else {
				_, c.err = xmpp.NewSession(ctx, c.location, c.origin, c.sut, xmpp.Secure|xmpp.Authn, neg)
			}
			c.done = true
		})
		rc.Spawn(fmt.Sprintf("peer%d", i), func() {
			defer func() { c.peerDone = true }()
			if c.recv {
				fmt.Fprintf(c.peer, `<?xml version='1.0'?><stream:stream xmlns='jabber:client' xmlns:stream='http://etherx.jabber.org/streams' version='1.0' from='%s' to='%s'>`, escText(c.origin.String()), escText(c.location.String()))
			}
			// take the header a few bytes at a time
			buf := make([]byte, 16)
			for {
				k, err := c.peer.Read(buf[:1+ch.Int("net", 12)])
				c.hdr = append(c.hdr, buf[:k]...)
				if i := bytes.Index(c.hdr, []byte("<stream:stream")); i >= 0 && bytes.IndexByte(c.hdr[i:], '>') >= 0 {
					break
				}
				if err != nil {
					return
				}
			}
			// let the session finish: drain whatever else it writes, answer an initiator with a header and an empty feature list
			if !c.recv {
				fmt.Fprintf(c.peer, `<?xml version='1.0'?><stream:stream xmlns='jabber:client' xmlns:stream='http://etherx.jabber.org/streams' version='1.0' id='sid' from='%s'><stream:features/>`, escText(c.location.String()))
				return
			}
			for !c.done {
				if _, err := c.peer.Read(buf); err != nil {
					return
				}
				if c.bind {
					if bytes.Contains(c.sut.Out().Tap, []byte("</stream:features>")) && c.boundJID == "" {
						c.boundJID = "?"
						io.WriteString(c.peer, `<iq type='set' id='b1'><bind xmlns='urn:ietf:params:xml:ns:xmpp-bind'/></iq>`)
					}
					if t := c.sut.Out().Tap; bytes.Contains(t, []byte("</jid>")) {
						i := bytes.Index(t, []byte("<jid>"))
						c.boundJID = string(t[i+5 : bytes.Index(t, []byte("</jid>"))])
					}
					continue
				}
				if bytes.Contains(c.sut.Out().Tap, []byte("</stream:features>")) {
					fmt.Fprintf(c.peer, `<fin xmlns='%s'/>`, c.featNS)
				}
			}
		})
	}
	rc.Describe("concurrent sessions=%d strategy=%s", n, strat)
	rc.CaseKey = fmt.Sprint("conc", n)
	rc.S.Run(func() bool {
		for _, c := range all {
			if !c.peerDone {
				return false
			}
		}
		return true
	}, 60000, 2*time.Minute)
	seenJID := map[string]int{}
	for i, c := range all {
		if !c.bind {
			continue
		}
		if t := c.sut.Out().Tap; c.boundJID == "?" && bytes.Contains(t, []byte("</jid>")) {
			k := bytes.Index(t, []byte("<jid>"))
			c.boundJID = string(t[k+5 : bytes.Index(t, []byte("</jid>"))])
		}
		if c.boundJID == "" || c.boundJID == "?" {
			continue
		}
		rc.Evals["C12.c7"]++
		if j, dup := seenJID[c.boundJID]; dup {
			rc.Failf("C12.c7", "bind-resource-not-fresh:concurrent", "sessions %d and %d of %d concurrent receiving sessions bound at the same time and answered with the same address %q: the random resource is not fresh", j, i, n, c.boundJID)
		}
		seenJID[c.boundJID] = i
	}
	for i, c := range all {
		rc.Describe("session %d recv=%v origin=%q lang=%q header=%s", i, c.recv, c.origin.String(), c.lang, clip(string(c.hdr), 240))
		j := bytes.Index(c.hdr, []byte("<stream:stream"))
		if j < 0 {
			rc.Failf("C12.c1", "no-header:concurrent", "session %d (recv=%v) of %d concurrent ones: its peer read %q and no stream header", i, c.recv, n, clip(string(c.hdr), 200))
			continue
		}
		rc.Evals["C12.c1"]++
		st, err := parseHeader(c.hdr[j:])
		if err != nil {
			rc.Failf("C12.c1", "header-not-well-formed:concurrent", "session %d of %d concurrent ones sent a stream header that is not well-formed XML (%v): %s", i, n, err, clip(string(c.hdr[j:]), 300))
			continue
		}
		rc.Evals["C12.c2"]++
		wantTo, wantFrom := c.location.String(), c.origin.String()
		if c.recv {
			wantTo, wantFrom = c.origin.String(), c.location.String()
		}
		to, _ := attrOf(st, "to")
		from, _ := attrOf(st, "from")
		lang, _ := attrOf(st, "lang")
		if shared {
			// with a shared negotiator the language of a first header cannot be the session's own (the configuration
			// function is asked only after the header exchange); what the session advertises must be its own
			lang = c.lang
			if c.recv {
				tap := string(c.sut.Out().Tap)
				for k, o := range all {
					if o != c && o.recv && strings.Contains(tap, o.featNS) {
						rc.Failf("C12.c2", "features-of-another-session", "session %d of %d concurrent receiving sessions that share one negotiator advertised %s, which is configured for session %d only (its own is %s): %s", i, n, o.featNS, k, c.featNS, clip(tap, 300))
					}
				}
			}
		}
		if to != wantTo || from != wantFrom || lang != c.lang {
			rc.Failf("C12.c2", "header-of-another-session", "session %d (recv=%v) of %d concurrent ones: its peer read a header with to=%q from=%q lang=%q, the session's own are to=%q from=%q lang=%q", i, c.recv, n, to, from, lang, wantTo, wantFrom, c.lang)
		}
	}
}

// (d) scripted initiator against the real receiving side of resource binding: the request's attributes in any order,
// with attributes of other namespaces that are named like the stanza's own.
func c12BindReceiver(rc *RC) {
	ch := rc.Ch
	origin := genJID(rc, "workload", false)
	reqRes := ""
	if ch.Chance("workload", 2, 3) {
		reqRes = genJID(rc, "workload", true).Resourcepart()
	}
	useCB := ch.Chance("workload", 1, 2)
	cc, sc := rc.Net.Pipe("cli", "srv")
	ctx, cancel := context.WithTimeout(context.Background(), 30*time.Second)
	rc.OnCleanup(func() { cancel(); cc.Close(); sc.Close() })
	var cbCalls []string
	var assigned jid.JID
	feat := xmpp.BindResource()
	if useCB {
		feat = xmpp.BindCustom(func(j jid.JID, res string) (jid.JID, error) {
			cbCalls = append(cbCalls, j.String()+"|"+res)
			assigned, _ = j.WithResource("srv-" + res)
			return assigned, nil
		})
	}
	var err error
	done := false
	rc.Spawn("sut", func() {
		_, err = xmpp.ReceiveSession(ctx, sc, xmpp.Secure|xmpp.Authn, xmpp.NewNegotiator(func(*xmpp.Session, *xmpp.StreamConfig) xmpp.StreamConfig {
			return xmpp.StreamConfig{Features: []xmpp.StreamFeature{feat}}
		}))
		done = true
	})
	reqID := "bind-" + c06IDTail(ch) + fmt.Sprint(ch.Int("workload", 1000))
	attrs := []string{` type='set'`, ` id='` + escText(reqID) + `'`}
	if ch.Chance("workload", 1, 2) {
		attrs = append(attrs, ` to='`+escText(origin.Domain().String())+`'`)
	}
	decoys := 0
	if ch.Chance("workload", 1, 2) {
		attrs = append(attrs, ` xmlns:x='urn:verif:x'`)
		for _, d := range []string{` x:id='decoy-id'`, ` xml:id='decoy-xml-id'`, ` xmlns:id='urn:verif:decoy'`, ` x:type='result'`, ` x:to='nobody@example.org'`} {
			if ch.Chance("workload", 1, 2) {
				attrs = append(attrs, d)
				decoys++
			}
		}
	}
	for i := len(attrs) - 1; i > 0; i-- {
		k := ch.Int("workload", i+1)
		attrs[i], attrs[k] = attrs[k], attrs[i]
	}
	resEl := ""
	if reqRes != "" {
		resEl = "<resource>" + escText(reqRes) + "</resource>"
	}
	req := `<iq` + strings.Join(attrs, "") + `><bind xmlns='urn:ietf:params:xml:ns:xmpp-bind'>` + resEl + `</bind></iq>`
	rc.Describe("bind-receiver origin=%q callback=%v request=%s", origin.String(), useCB, req)
	rc.CaseKey = fmt.Sprint("bindrecv", useCB, reqRes != "", decoys)
	out := sc.Out()
	rc.Spawn("script", func() {
		fmt.Fprintf(cc, `<?xml version='1.0'?><stream:stream xmlns='jabber:client' xmlns:stream='http://etherx.jabber.org/streams' version='1.0' from='%s' to='%s'>`, escText(origin.String()), escText(origin.Domain().String()))
		simrt.WaitUntil("script:features", func() bool { return done || bytes.Contains(out.Tap, []byte("</stream:features>")) })
		io.WriteString(cc, req)
	})
	rc.S.Run(func() bool { return done }, 60000, time.Minute)
	if !done {
		rc.Failf("C12.c7", "bind-receiver-hangs", "the receiving side has not returned: stuck %v", rc.S.Stuck())
		return
	}
	w := ParseWire(out.Tap)
	if w.Err != nil {
		rc.Failf("C12.c1", "receiver-output-not-well-formed", "receiver's output is not well-formed XML: %v: %s", w.Err, clip(string(out.Tap), 300))
		return
	}
	var reply *Elem
	for i, e := range w.Elems {
		if e.Start.Name.Local == "iq" {
			reply = &w.Elems[i]
		}
	}
	rc.Evals["C12.c7"]++
	if reply == nil {
		rc.Failf("C12.c7", "bind-request-not-answered", "the bind request %s got no reply (receiver returned %v): %s", req, err, clip(string(out.Tap), 300))
		return
	}
	rc.Check("C12.c7", "bind-reply-id", reply.Attr("id") == reqID, "bind reply has id %q, the request %s had %q", reply.Attr("id"), req, reqID)
	got := ""
	for i, t := range reply.Toks {
		if st, ok := t.(xml.StartElement); ok && st.Name.Local == "jid" && i+1 < len(reply.Toks) {
			if cd, ok := reply.Toks[i+1].(xml.CharData); ok {
				got = string(cd)
			}
		}
	}
	if useCB {
		rc.Check("C12.c7", "callback-arguments", len(cbCalls) == 1 && strings.HasSuffix(cbCalls[0], "|"+reqRes), "bind callback was called with %q, the request asked for %q", cbCalls, reqRes)
		rc.Check("C12.c7", "bind-reply-callback-address", got == assigned.String(), "receiver replied %q, the callback returned %q", got, assigned.String())
	} else {
		j, perr := jid.Parse(got)
		if perr != nil || !j.Bare().Equal(origin.Bare()) || j.Resourcepart() == "" {
			rc.Failf("C12.c7", "bind-reply-random-resource", "receiver without callback replied %q, want a random resource of %q", got, origin.Bare().String())
		}
	}
}

// (c) scripted bind server against the real initiator.
func c12Bind(rc *RC) {
	ch := rc.Ch
	origin := genJID(rc, "workload", true)
	mode := ch.Int("workload", 6) // 0 result, 1 result other address, 2 error, 3 wrong id, 4 malformed, 5 error without an <error/> payload
	assigned := origin
	if mode == 1 {
		assigned = genJID(rc, "workload", true)
	}
	rc.Describe("bind origin=%q mode=%d assigned=%q", origin.String(), mode, assigned.String())
	rc.CaseKey = fmt.Sprint("bind", mode)
	cc, sc := rc.Net.Pipe("cli", "srv")
	ctx, cancel := context.WithTimeout(context.Background(), 30*time.Second)
	rc.OnCleanup(func() { cancel(); cc.Close(); sc.Close() })
	var sess *xmpp.Session
	var err error
	done := false
	rc.Spawn("sut", func() {
		sess, err = xmpp.NewSession(ctx, origin.Domain(), origin, cc, xmpp.Secure|xmpp.Authn, xmpp.NewNegotiator(func(*xmpp.Session, *xmpp.StreamConfig) xmpp.StreamConfig {
			return xmpp.StreamConfig{Features: []xmpp.StreamFeature{xmpp.BindResource()}}
		}))
		done = true
	})
	out := cc.Out()
	esc := func(s string) string { return escText(s) }
	rc.Spawn("script", func() {
		simrt.WaitUntil("script:hdr", func() bool {
			return done || (bytes.Contains(out.Tap, []byte("<stream:stream")) && bytes.HasSuffix(out.Tap, []byte(">")))
		})
		fmt.Fprintf(sc, `<?xml version='1.0'?><stream:stream xmlns='jabber:client' xmlns:stream='http://etherx.jabber.org/streams' version='1.0' id='sid' from='%s'><stream:features><bind xmlns='urn:ietf:params:xml:ns:xmpp-bind'/></stream:features>`, esc(origin.Domain().String()))
		simrt.WaitUntil("script:req", func() bool { return done || bytes.Contains(out.Tap, []byte("</iq>")) })
		if done {
			return
		}
		w := ParseWire(out.Tap)
		id := ""
		for _, e := range w.Elems {
			if e.Start.Name.Local == "iq" {
				id = e.Attr("id")
			}
		}
		switch mode {
		case 0, 1:
			fmt.Fprintf(sc, `<iq type='result' id='%s'><bind xmlns='urn:ietf:params:xml:ns:xmpp-bind'><jid>%s</jid></bind></iq>`, esc(id), esc(assigned.String()))
		case 2:
			fmt.Fprintf(sc, `<iq type='error' id='%s'><error type='cancel'><conflict xmlns='urn:ietf:params:xml:ns:xmpp-stanzas'/></error></iq>`, esc(id))
		case 3:
			// another id - in a third of the cases with the request's id in an attribute that is only named like the
			// stanza's own (another namespace), in front of or behind the real one
			switch ch.Int("script", 3) {
			case 0:
				fmt.Fprintf(sc, `<iq type='result' id='other-%s'><bind xmlns='urn:ietf:params:xml:ns:xmpp-bind'><jid>%s</jid></bind></iq>`, esc(id), esc(assigned.String()))
			case 1:
				rc.Fire("bind-reply-id-decoy")
				fmt.Fprintf(sc, `<iq xmlns:x='urn:x' type='result' id='other-%s' x:id='%s'><bind xmlns='urn:ietf:params:xml:ns:xmpp-bind'><jid>%s</jid></bind></iq>`, esc(id), esc(id), esc(assigned.String()))
			default:
				rc.Fire("bind-reply-id-decoy")
				fmt.Fprintf(sc, `<iq xmlns:x='urn:x' x:id='%s' type='result' id='other-%s'><bind xmlns='urn:ietf:params:xml:ns:xmpp-bind'><jid>%s</jid></bind></iq>`, esc(id), esc(id), esc(assigned.String()))
			}
		case 4:
			fmt.Fprintf(sc, `<iq type='result' id='%s'><bind xmlns='urn:ietf:params:xml:ns:xmpp-bind'><jid>not a@valid@jid/</jid></bind></iq>`, esc(id))
		case 5:
			fmt.Fprintf(sc, []string{`<iq type='error' id='%s'/>`, `<iq type='error' id='%s'><bind xmlns='urn:ietf:params:xml:ns:xmpp-bind'/></iq>`}[ch.Int("script", 2)], esc(id))
		}
	})
	rc.S.Run(func() bool { return done }, 60000, time.Minute)
	if !done {
		rc.Failf("C12.c6", "bind-initiator-hangs", "initiator has not returned: stuck %v", rc.S.Stuck())
		return
	}
	// c6: the request asks for exactly the resourcepart of the initiator's own address
	w := ParseWire(out.Tap)
	if w.Err != nil {
		rc.Failf("C12.c1", "initiator-output-not-well-formed", "initiator's output is not well-formed XML: %v: %s", w.Err, clip(string(out.Tap), 300))
		return
	}
	for _, e := range w.Elems {
		if e.Start.Name.Local != "iq" {
			continue
		}
		rc.Evals["C12.c6"]++
		res, has := "", false
		for i, t := range e.Toks {
			if st, ok := t.(xml.StartElement); ok && st.Name.Local == "resource" {
				has = true
				if cd, ok := e.Toks[i+1].(xml.CharData); ok {
					res = string(cd)
				}
			}
		}
		want := origin.Resourcepart()
		if want == "" {
			rc.Check("C12.c6", "resource-requested-but-none-wanted", !has, "initiator has no resourcepart but its request contains a resource element %q", res)
		} else if res != want {
			rc.Failf("C12.c6", "wrong-resource-requested", "initiator's address is %q but its bind request asks for resource %q", origin.String(), res)
		}
	}
	rc.Evals["C12.c6"]++
	switch mode {
	case 0, 1:
		if err != nil {
			rc.Failf("C12.c6", "bind-result-rejected", "server answered the bind request with result %q, the initiator returned %v", assigned.String(), err)
		} else if !sess.LocalAddr().Equal(assigned) {
			rc.Failf("C12.c6", "assigned-address-not-adopted", "server assigned %q but the initiator reports LocalAddr %q", assigned.String(), sess.LocalAddr().String())
		}
	case 2:
		rc.Check("C12.c6", "bind-error-not-returned", err != nil, "server answered with a stanza error, the initiator returned %v", err)
	case 5:
		// the error that comes back must be a usable error value
		msg, bad := "", false
		func() {
			defer func() {
				if r := recover(); r != nil {
					bad = true
				}
			}()
			if err != nil {
				msg = err.Error()
			}
		}()
		if err == nil || bad {
			rc.Failf("C12.c6", "bind-error-reply-without-payload", "server answered the bind request with an error IQ that carries no <error/>; the initiator returned an error value of type %T (nil=%v) whose Error method panics=%v", err, err == nil, bad)
		}
		_ = msg
	case 3:
		rc.Check("C12.c6", "bind-wrong-id-accepted", err != nil, "server answered with another id and the initiator returned nil")
	case 4:
		rc.Check("C12.c6", "bind-malformed-accepted", err != nil, "server answered with a malformed address and the initiator returned nil (LocalAddr %q)", func() string {
			if sess != nil {
				return sess.LocalAddr().String()
			}
			return ""
		}())
	}
}
