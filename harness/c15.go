package harness

import (
	"bytes"
	"context"
	"encoding/base64"
	"encoding/xml"
	"errors"
	"fmt"
	"io"
	"net"
	"os"
	"strconv"
	"strings"
	"time"

	"mellium.im/xmlstream"
	"mellium.im/xmpp/ibb"
	"mellium.im/xmpp/jid"
	"mellium.im/xmpp/mux"
	"mellium.im/xmpp/stanza"
	"verif.sim/simrt"
)

// C15 — an in-band bytestream is a reliable ordered byte pipe.

func init() { register(&Scenario{ID: "C15", Run: runC15, Alt: runC15Third, AltEvery: 12}) }

type ibbReader struct {
	got  []byte
	eof  bool
	err  error
	done bool
}

func readAll(rc *RC, c net.Conn, r *ibbReader, bufSize int) {
	buf := make([]byte, bufSize)
	for {
		n, err := c.Read(buf)
		r.got = append(r.got, buf[:n]...)
		if err != nil {
			r.eof, r.err = err == io.EOF, err
			break
		}
		if n == 0 {
			simrt.Yield("read0")
		}
	}
	r.done = true
}

func genPayload(rc *RC, block int) []byte {
	ch := rc.Ch
	var n int
	switch ch.Int("workload", 6) {
	case 0:
		n = ch.Range("workload", 0, 8)
	case 1:
		n = block*ch.Range("workload", 1, 3) + ch.Range("workload", -2, 2)
	case 2:
		n = 3*ch.Range("workload", 1, 20) + ch.Range("workload", 0, 2)
	default:
		n = ch.Range("workload", 1, 700)
	}
	if n < 0 {
		n = 0
	}
	if n > 6000 {
		n = 6000
	}
	b := make([]byte, n)
	for i := range b {
		b[i] = byte(33 + (i*7+ch.Int("workload", 5))%90)
	}
	return b
}

func runC15(rc *RC) {
	ch := rc.Ch
	strat := rc.S.ConfigureStrategy()
	p := rc.NewPair(ch.Chance("workload", 1, 2))
	if p == nil {
		return
	}
	hA, hB := &ibb.Handler{}, &ibb.Handler{}
	p.Serve(mux.New(stanza.NSClient, ibb.Handle(hA)), mux.New(stanza.NSClient, ibb.Handle(hB)))
	blocks := []int{1, 2, 3, 4, 5, 8, 63, 64, 65, 4095, 4096, 4097, 65535}
	block := blocks[ch.Int("workload", len(blocks))]
	// the 65536-packet sequence wrap costs about a minute per run: every 5000th run of the thorough tier
	wrap := (rc.Tier == "thorough" && rc.Index%5000 == 4999) || os.Getenv("C15_FORCE_WRAP") != ""
	ack := ch.Chance("workload", 1, 2)
	if wrap {
		block, ack = 1, false
		// every Encode starts a short-lived goroutine; under a strategy that lets the writer run on for thousands of
		// steps these pile up unscheduled and each step has to look at all of them
		rc.S.Strat, strat = simrt.StratUniform, "uniform(wrap)"
	}
	acceptMode := ch.Int("workload", 9) // 8: the application closes the listener while an open request waits to be accepted; 0-2 Accept, 3-4 Expect, 5 no listener, 6 an Expect that is given up, then Accept, 7 a second Expect takes the first one over
	reverse := ch.Chance("workload", 1, 3) && !wrap
	payload := genPayload(rc, block)
	if wrap {
		// block size 1: one data packet per 3 payload bytes, so this crosses packet 65535 -> 0
		payload = bytes.Repeat([]byte("abcdefghijklmnopqrstuvwxyz012345"), 3*65560/32+1)[:3*65560]
	}
	payload2 := genPayload(rc, block)
	closer := ch.Int("workload", 4) // 0 opener closes, 1 acceptor closes, 2 nobody (session ends), 3 both at once (crossing closes)
	// the end that does NOT close may still hold written but unflushed bytes when the other end closes: they are
	// flushed when the close request arrives and the closing end's reader gets them before end-of-file
	lazyTail := !wrap && closer < 2 && ch.Chance("workload", 1, 3)
	rbuf := []int{1, 2, 7, 64, 1000, 70000}[ch.Int("workload", 6)]
	sid := "sid" + strconv.Itoa(ch.Int("workload", 1000)) + c06IDTail(ch) // session ids are opaque strings too
	overflow := !wrap && acceptMode != 5 && ch.Chance("workload", 1, 6)
	// the opener closes as soon as its own data is out, without waiting for the acceptor's writer (acknowledged carrier:
	// that writer is inside Write, waiting for acknowledgements, most of the time)
	earlyClose := reverse && closer == 0 && ack && !wrap && ch.Chance("workload", 1, 2)
	if earlyClose {
		lazyTail = false
		// enough data for the acceptor's writer to be busy for a while
		payload2 = bytes.Repeat([]byte("0123456789abcdefghijklmnopqrstuv"), 1+ch.Int("workload", 40))
	}
	tailA, tailB := 0, 0
	if lazyTail && !overflow {
		if closer == 1 && len(payload) > 0 {
			tailA = 1 + ch.Int("workload", min(len(payload), block))
		}
		if closer == 0 && reverse && len(payload2) > 0 {
			tailB = 1 + ch.Int("workload", min(len(payload2), block))
		}
	}
	readGo := !overflow
	bufSet := !overflow
	if overflow {
		block, ack, reverse = []int{4, 8, 16, 64}[ch.Int("workload", 4)], true, false
		payload = genPayload(rc, block)
		for len(payload) < 12*block {
			payload = append(payload, payload...)
			payload = append(payload, 'x')
		}
	}
	// a reader that falls behind by more than half of its buffer limit (never beyond the limit), catches up completely,
	// and falls behind again: every packet fits, none may be refused
	lagDrain := overflow && ch.Chance("workload", 1, 2)
	lagLimit, lagS1 := 0, 0
	part1Done, exactFit := false, false
	if lagDrain {
		lagLimit = block * ch.Range("workload", 8, 24)
		lagS1 = lagLimit/2 + ch.Range("workload", 1, lagLimit/2-block)
		if ch.Chance("workload", 1, 3) {
			// … or the reader does not read at all until the writer has closed, and what was written fills the buffer to
			// the last byte: the packet that Close flushes carries the one or two bytes left over from the last base64
			// group (text with padding: what counts is the data it carries), and it fits
			exactFit = true
			lagS1 = lagLimit - ch.Int("workload", 3)
			for lagS1%3 == 0 {
				lagS1--
			}
			rc.Fire("lag-to-the-limit")
		}
		s2 := ch.Range("workload", block, lagLimit-block)
		if exactFit {
			s2 = 0
		}
		payload = make([]byte, lagS1+s2)
		for i := range payload {
			payload[i] = byte(33 + (i*11)%90)
		}
	}
	rc.Describe("lag-drain=%v limit=%d first=%d", lagDrain, lagLimit, lagS1)
	reopenLive := reverse && !overflow && !wrap && acceptMode <= 2 && ch.Chance("workload", 1, 4)
	var reopenErr error
	reopenDone := false
	rc.Describe("overflow=%v strategy=%s block=%d carrier-iq=%v accept=%d reverse=%v len=%d len2=%d closer=%d readbuf=%d wrap=%v tailA=%d tailB=%d early-close=%v", overflow, strat, block, ack, acceptMode, reverse, len(payload), len(payload2), closer, rbuf, wrap, tailA, tailB, earlyClose)
	rc.CaseKey = fmt.Sprint(block, ack, acceptMode, reverse, closer)
	bJID := jid.MustParse("example.net")

	var connA *ibb.Conn
	var connB net.Conn
	var openErr, acceptErr error
	openDone, acceptDone := false, acceptMode == 5
	writeDoneA, writeDoneB := false, !reverse
	var werrA, werrB, closeErrA, closeErrB error
	var rdA, rdB ibbReader
	phase := 0 // 1: close allowed
	ctx, cancel := context.WithTimeout(p.Ctx, 10*time.Minute)
	rc.OnCleanup(cancel)

	writeAll := func(c io.Writer, fl func() error, data []byte, label string, k int) error {
		var tail []byte
		if k > 0 {
			data, tail = data[:len(data)-k], data[len(data)-k:]
		}
		defer func() {
			// written last and never flushed by the writer
			if len(tail) > 0 {
				c.Write(tail)
			}
		}()
		for len(data) > 0 {
			k := 1 + ch.Int(label, min(len(data), 1+block*2))
			if ch.Chance(label, 1, 4) {
				k = 1 + ch.Int(label, len(data))
			}
			if wrap {
				k = min(3, len(data)) // one packet per complete base64 group: 65536+ packets
			}
			n, err := c.Write(data[:k])
			if err != nil {
				return fmt.Errorf("Write: %w", err)
			}
			if n != k {
				return fmt.Errorf("short write %d of %d", n, k)
			}
			data = data[k:]
			if ch.Chance(label, 1, 3) {
				if err := fl(); err != nil {
					return fmt.Errorf("Flush: %w", err)
				}
			}
		}
		if err := fl(); err != nil {
			return fmt.Errorf("Flush: %w", err)
		}
		return nil
	}

	var lst *ibb.Listener
	var accT *simrt.Task
	expectGivenUp := false
	accTask := func() *simrt.Task { return accT }
	if acceptMode != 5 {
		lst = hB.Listen(p.B) // the listener exists before anybody opens a stream
		accT = rc.Spawn("acceptor", func() {
			l := lst
			switch {
			case acceptMode == 6:
				// the application stops waiting for the announced stream (its context ends) and goes back to accepting
				// whatever comes; the stream is opened afterwards all the same
				ectx, ecancel := context.WithCancel(ctx)
				rc.Spawn("expect-canceller", func() {
					simrt.WaitUntil("expect-blocked", func() bool { return strings.HasPrefix(accTask().Site, "blocked:ibb/listen.go") || accTask().Done() })
					ecancel()
				})
				_, eerr := l.Expect(ectx, jid.JID{}, sid)
				if eerr == nil {
					rc.Failf("C15.c1", "expect-returned-without-open", "Expect returned a connection although nobody had opened a stream")
				}
				expectGivenUp = true
				connB, acceptErr = l.Accept()
			case acceptMode == 8:
				simrt.WaitUntil("listener-close", func() bool {
					return openDone || (p.ServeB != nil && strings.HasPrefix(p.ServeB.Site, "blocked:ibb/ibb.go"))
				})
				l.Close()
				rc.Fire("listener-closed-under-open")
				acceptDone, acceptErr = true, errListenerClosed
				return
			case acceptMode == 7:
				// a second Expect for the same stream replaces the first (which returns its context's error); the stream
				// goes to the second
				var firstErr error
				firstDone := false
				first := rc.Spawn("expect-first", func() {
					_, firstErr = l.Expect(ctx, jid.JID{}, sid)
					firstDone = true
				})
				simrt.WaitUntil("expect-first-blocked", func() bool { return strings.HasPrefix(first.Site, "blocked:ibb/listen.go") || first.Done() })
				rc.Spawn("expect-first-check", func() {
					simrt.WaitUntil("expect-first-done", func() bool { return firstDone || acceptDone })
					simrt.Sleep(time.Second)
					rc.Check("C15.c1", "replaced-expect-not-released", firstDone && firstErr != nil, "a second Expect took the stream over but the first one has not returned an error (done=%v err=%v)", firstDone, firstErr)
				})
				expectGivenUp = true
				connB, acceptErr = l.Expect(ctx, jid.JID{}, sid)
			case acceptMode >= 3:
				connB, acceptErr = l.Expect(ctx, jid.JID{}, sid)
			default:
				connB, acceptErr = l.Accept()
			}
			acceptDone = true
			if acceptErr != nil {
				return
			}
			if reverse {
				rc.Spawn("writer-b", func() {
					werrB = writeAll(connB, connB.(*ibb.Conn).Flush, payload2, "wb", tailB)
					writeDoneB = true
				})
			}
			if overflow {
				if lagDrain {
					connB.(*ibb.Conn).SetReadBuffer(lagLimit)
				} else {
					connB.(*ibb.Conn).SetReadBuffer(3 * block)
				}
				bufSet = true
			}
			rc.Spawn("reader-b", func() {
				simrt.WaitUntil("reader-b:go", func() bool { return readGo || part1Done })
				readAll(rc, connB, &rdB, rbuf)
			})
			if closer == 1 || closer == 3 {
				simrt.WaitUntil("closer-b", func() bool { return phase >= 1 })
				if phase == 1 {
					closeErrB = connB.Close()
				}
			}
		})
	}
	opener := rc.Spawn("opener", func() {
		if accT != nil {
			// the application is inside Accept / Expect before the peer opens the stream
			simrt.WaitUntil("opener:acceptor-ready", func() bool {
				return acceptMode == 8 || (strings.HasPrefix(accT.Site, "blocked:ibb/listen.go") && ((acceptMode != 6 && acceptMode != 7) || expectGivenUp)) || accT.Done()
			})
		}
		octx, ocancel := context.WithTimeout(ctx, 30*time.Second)
		defer ocancel()
		connA, openErr = hA.OpenIQ(octx, stanza.IQ{To: bJID}, p.A, ack, uint16(block), sid)
		openDone = true
		if openErr != nil || connA == nil {
			writeDoneA = true
			return
		}
		if reverse {
			rc.Spawn("reader-a", func() { readAll(rc, connA, &rdA, rbuf) })
		}
		if reopenLive {
			// the application asks for a second stream under the session id of the one that is live: there is one stream
			// per id, so this cannot succeed - and the live stream must not notice (both directions are checked below)
			rc.Spawn("reopener", func() {
				simrt.Sleep(time.Duration(ch.Range("workload", 0, 20)) * time.Millisecond)
				rctx, rcancel := context.WithTimeout(ctx, 20*time.Second)
				defer rcancel()
				c2, err := hA.OpenIQ(rctx, stanza.IQ{To: bJID}, p.A, ack, uint16(block), sid)
				reopenErr, reopenDone = err, true
				if err == nil && c2 != nil {
					reopenErr = nil
				}
				rc.Fire("reopen-live-sid")
			})
		}
		simrt.WaitUntil("writer-a:buffer-limit-set", func() bool { return bufSet || acceptErr != nil })
		if lagDrain {
			// packets of at most one block each, so that none is larger than what the reader's buffer has room for
			small := func(data []byte) error {
				for len(data) > 0 {
					k := 1 + ch.Int("wa", min(len(data), block))
					if _, err := connA.Write(data[:k]); err != nil {
						return fmt.Errorf("Write: %w", err)
					}
					data = data[k:]
					if err := connA.Flush(); err != nil {
						return fmt.Errorf("Flush: %w", err)
					}
				}
				return nil
			}
			werrA = small(payload[:lagS1])
			part1Done = !exactFit
			simrt.WaitUntil("writer-a:reader-caught-up", func() bool {
				if exactFit {
					return true
				}
				return len(rdB.got) >= lagS1-2 || rdB.done || acceptErr != nil || werrA != nil || phase >= 2
			})
			if werrA == nil {
				werrA = small(payload[lagS1:])
			}
		} else {
			werrA = writeAll(connA, connA.Flush, payload, "wa", tailA)
		}
		writeDoneA = true
		if closer == 0 || closer == 3 {
			simrt.WaitUntil("closer-a", func() bool { return phase >= 1 })
			if phase == 1 {
				closeErrA = connA.Close()
			}
		}
	})
	// phase 1: open / accept / write everything
	st := rc.S.Run(func() bool { return openDone && acceptDone && writeDoneA && (writeDoneB || earlyClose) }, 4000000, 2*time.Minute)
	// c1: Open succeeds only when the peer accepted
	rc.Evals["C15.c1"]++
	if acceptMode == 5 {
		if openDone && openErr == nil {
			rc.Failf("C15.c1", "open-succeeds-without-acceptance", "the peer has no listener (it answered the open request with an error) but Open returned a connection")
		}
		if openDone && openErr != nil {
			// the refused session does not exist: packets naming it are refused by the side that tried to open it
			var cond string
			var ierr error
			it := rc.Spawn("injector-refused", func() {
				ictx, c2 := context.WithTimeout(ctx, 20*time.Second)
				defer c2()
				pay := xmlstream.Wrap(xmlstream.Token(xml.CharData("QUJD")), xml.StartElement{Name: xml.Name{Space: ibb.NS, Local: "data"}, Attr: []xml.Attr{{Name: xml.Name{Local: "sid"}, Value: sid}, {Name: xml.Name{Local: "seq"}, Value: "0"}}})
				if ch.Chance("workload", 1, 3) {
					pay = xmlstream.Wrap(nil, xml.StartElement{Name: xml.Name{Space: ibb.NS, Local: "close"}, Attr: []xml.Attr{{Name: xml.Name{Local: "sid"}, Value: sid}}})
				}
				r, err := p.B.SendIQ(ictx, stanza.IQ{Type: stanza.SetIQ, ID: "inj3"}.Wrap(pay))
				if err != nil {
					ierr = err
					return
				}
				defer r.Close()
				tok, _ := r.Token()
				st, _ := tok.(xml.StartElement)
				if (Elem{Start: st}).Attr("type") != "error" {
					cond = "result"
					return
				}
				for {
					tok, err := r.Token()
					if err != nil {
						return
					}
					if s2, ok := tok.(xml.StartElement); ok && s2.Name.Space == "urn:ietf:params:xml:ns:xmpp-stanzas" {
						cond = s2.Name.Local
						return
					}
				}
			})
			rc.S.Run(func() bool { return it.Done() }, 200000, time.Minute)
			rc.Fire("inject-refused-sid")
			rc.Evals["C15.c4"]++
			if !it.Done() || ierr != nil || cond != "item-not-found" {
				rc.Failf("C15.c4", "bad-packet-not-refused:refused-sid", "packet for a session whose open request was refused: want stanza error item-not-found, got %q (err %v, returned %v)", cond, ierr, it.Done())
			}
		}
		finishC15(rc, p, &phase)
		return
	}
	if acceptMode == 8 {
		// nothing to transfer: the point is that neither serve loop panics or stays blocked (c6) and Open returns
		rc.Check("C15.c1", "open-stuck:listener-closed", openDone, "the accepting side closed its listener while the open request waited; Open has not returned: stuck %v", rc.S.Stuck())
		finishC15(rc, p, &phase)
		return
	}
	if !openDone || openErr != nil || !acceptDone || acceptErr != nil {
		rc.Failf("C15.c1", "open-failed", "open/accept did not complete: openDone=%v err=%v acceptDone=%v err=%v status=%v stuck=%v", openDone, openErr, acceptDone, acceptErr, st, rc.S.Stuck())
		finishC15(rc, p, &phase)
		return
	}
	if lagDrain {
		rc.Evals["C15.c4"]++
		rc.Fire("lag-then-drain")
		var closeErrA error
		ca := rc.Spawn("close-a", func() { closeErrA = connA.Close() })
		if exactFit {
			rc.S.Run(func() bool { return ca.Done() }, 400000, time.Minute)
			part1Done = true
		}
		rc.S.Run(func() bool { return rdB.done && ca.Done() }, 400000, time.Minute)
		if exactFit && werrA == nil && ca.Done() && closeErrA != nil {
			rc.Failf("C15.c4", "packet-within-buffer-refused:at-close", "the reader had read nothing of the %d bytes written when the writer closed; its receive buffer holds %d bytes, so the %d byte(s) that Close flushes fit, but Close returned %v", lagS1, lagLimit, lagS1%3, closeErrA)
		} else if werrA != nil {
			rc.Failf("C15.c4", "packet-within-buffer-refused", "the reader was at most %d bytes behind a receive buffer of %d bytes (it had caught up after the first %d bytes), packets carry at most %d bytes, but writing ended with %v", max(lagS1, len(payload)-lagS1), lagLimit, lagS1, block, werrA)
		} else if !bytes.Equal(rdB.got, payload) || !rdB.eof {
			rc.Failf("C15.c2", "lagging-reader-data", "the reader got %d of %d bytes (equal prefix %d), eof=%v err=%v", len(rdB.got), len(payload), commonPrefix(rdB.got, payload), rdB.eof, rdB.err)
		}
		finishC15(rc, p, &phase)
		return
	}
	if overflow {
		// the reader lagged: the writer must have been refused, and exactly the acknowledged packets reach the reader
		rc.Evals["C15.c4"]++
		readGo = true
		ca := rc.Spawn("close-a", func() { connA.Close() })
		rc.S.Run(func() bool { return rdB.done && ca.Done() }, 400000, time.Minute)
		var se stanza.Error
		if werrA == nil || !errors.As(werrA, &se) || se.Condition != stanza.ResourceConstraint {
			rc.Failf("C15.c4", "overflow-not-refused", "the reader did not read and its buffer limit is %d bytes, but writing %d bytes ended with %v (want a resource-constraint stanza error)", 3*block, len(payload), werrA)
		}
		accepted := ibbAccepted(p.CA.Out().Tap, p.CB.Out().Tap, sid)
		if !bytes.Equal(rdB.got, accepted) {
			rc.Failf("C15.c4", "refused-packet-disturbs-stream", "the reader got %d bytes, the acknowledged packets carry %d bytes (buffer limit %d, %d written): a refused packet reached the reader or acknowledged data was lost", len(rdB.got), len(accepted), 3*block, len(payload))
		}
		checkPrefix0(rc, "a->b overflow", rdB.got, payload)
		// the writer's application closed its end after the refusal: the reader drains what was accepted and reads end-of-file
		rc.Evals["C15.c2"]++
		if ca.Done() && !p.DoneA && !p.DoneB && !(rdB.done && rdB.eof) {
			rc.Failf("C15.c2", "no-eof-after-close:after-refused-write", "a write was refused (%v), the writing end then called Close (returned), both sessions are served, and the other end's reader has not read end-of-file: done=%v eof=%v err=%v after %d bytes; stuck %v", werrA, rdB.done, rdB.eof, rdB.err, len(rdB.got), rc.S.Stuck())
		}
		finishC15(rc, p, &phase)
		return
	}
	if earlyClose && !overflow && openDone && openErr == nil && acceptErr == nil && writeDoneA && werrA == nil {
		// the opener closes while the acceptor's application is still inside Write/Flush (waiting for acknowledgements):
		// the acceptor's writer may fail, its reader still gets everything the opener wrote and then end-of-file
		phase = 1
		rc.S.Run(func() bool { return rdB.done && opener.Done() && writeDoneB }, 400000, 2*time.Minute)
		rc.Evals["C15.c2"]++
		rc.Fire("close-during-peer-write")
		if !opener.Done() {
			rc.Failf("C15.c2", "close-stuck:peer-writing", "the opener's Close has not returned while the acceptor was writing; stuck %v", rc.S.Stuck())
		}
		if !writeDoneB {
			rc.Failf("C15.c2", "write-stuck-after-peer-close", "the acceptor's Write/Flush has not returned after the opener closed the stream; stuck %v", rc.S.Stuck())
		}
		if !rdB.done || !rdB.eof {
			rc.Failf("C15.c2", "no-eof-after-close:a->b:peer-writing", "the opener closed the stream (Close returned %v) while the acceptor was writing, and the acceptor's reader did not reach end-of-file (done=%v err=%v, %d/%d bytes); stuck %v", closeErrA, rdB.done, rdB.err, len(rdB.got), len(payload), rc.S.Stuck())
		} else if !bytes.Equal(rdB.got, payload) {
			rc.Failf("C15.c2", "bytes-lost-at-close:a->b:peer-writing", "after Close the reader has %d bytes, %d were written", len(rdB.got), len(payload))
		}
		if !bytes.HasPrefix(payload2, rdA.got) {
			rc.Failf("C15.c2", "bytes-differ:b->a:peer-writing", "the opener's reader got bytes that are not a prefix of what the acceptor wrote")
		}
		finishC15(rc, p, &phase)
		return
	}
	if !writeDoneA || !writeDoneB || werrA != nil || werrB != nil {
		rc.Failf("C15.c5", "write-failed", "writers did not finish: a done=%v err=%v; b done=%v err=%v; status=%v stuck=%v", writeDoneA, werrA, writeDoneB, werrB, st, rc.S.Stuck())
		finishC15(rc, p, &phase)
		return
	}
	// phase 2: everything written and flushed must become readable without further writes
	// (the base64 layer holds back an incomplete 3-byte group until Close; the statement does not promise those before Close)
	must1, must2 := len(payload)-tailA, len(payload2)-tailB
	must1, must2 = must1-must1%3, must2-must2%3
	rc.S.Run(func() bool { return len(rdB.got) >= must1 && (!reverse || len(rdA.got) >= must2) }, 4000000, time.Minute)
	checkPrefix := func(label string, got, want []byte) {
		rc.Evals["C15.c2"]++
		if !bytes.HasPrefix(want, got) {
			d := 0
			for d < len(got) && d < len(want) && got[d] == want[d] {
				d++
			}
			rc.Failf("C15.c2", "bytes-differ:"+label, "%s: bytes read are not a prefix of the bytes written: first difference at %d (read %d bytes, written %d): read %q written %q", label, d, len(got), len(want), clip(string(got[max(0, d-8):]), 40), clip(string(want[max(0, min(d, len(want))-8):]), 40))
		}
	}
	checkPrefix("a->b", rdB.got, payload)
	rc.Evals["C15.c5"]++
	if len(rdB.got) < must1 && bytes.HasPrefix(payload, rdB.got) {
		rc.Failf("C15.c5", "flushed-bytes-not-readable:a->b", "%d bytes were written and flushed, the reader has %d and nothing more can happen (reader done=%v err=%v); stuck %v", len(payload), len(rdB.got), rdB.done, rdB.err, rc.S.Stuck())
	}
	rc.Check("C15.c2", "eof-before-close:a->b", !rdB.eof, "reader saw end-of-file before any Close")
	if reverse {
		checkPrefix("b->a", rdA.got, payload2)
		if len(rdA.got) < must2 && bytes.HasPrefix(payload2, rdA.got) {
			rc.Failf("C15.c5", "flushed-bytes-not-readable:b->a", "%d bytes were written and flushed, the reader has %d and nothing more can happen; stuck %v", len(payload2), len(rdA.got), rc.S.Stuck())
		}
	}
	// c3: the data stanzas on the wire (before Close: all complete 3-byte groups)
	checkIBBWire(rc, p.CA.Out().Tap, sid, payload[:must1], payload, "a->b")
	if reverse {
		checkIBBWire(rc, p.CB.Out().Tap, sid, payload2[:must2], payload2, "b->a")
	}
	if reopenLive {
		rc.S.Run(func() bool { return reopenDone }, 200000, time.Minute)
		rc.Evals["C15.c1"]++
		if !reopenDone {
			rc.Failf("C15.c1", "second-open-for-live-sid-stuck", "OpenIQ for the session id of the live stream has not returned; stuck %v", rc.S.Stuck())
		} else if reopenErr == nil {
			rc.Failf("C15.c1", "second-open-for-live-sid-granted", "OpenIQ for the session id of the stream that is live on this very handler returned a connection and no error: there is one stream per session id")
		}
	}
	// phase 3: injected bad packets are refused and disturb nothing
	if !wrap && ch.Chance("workload", 2, 3) && len(rdB.got) >= must1 {
		type inj struct{ name, sid, seq, data, want string }
		nextSeq := 0
		w := ParseWire(p.CA.Out().Tap)
		for _, e := range w.Elems {
			for _, t := range e.Toks {
				if st, ok := t.(xml.StartElement); ok && st.Name.Local == "data" {
					nextSeq++
				}
			}
		}
		injs := []inj{
			{"unknown-sid", "nosuchsid", "0", "QUJD", "item-not-found"},
			{"wrong-seq", sid, strconv.Itoa((nextSeq + 7) % 65536), "QUJD", "unexpected-request"},
			{"bad-base64", sid, strconv.Itoa(nextSeq % 65536), "QUJD!!!*", "bad-request"},
			// base64 that ends in the middle of a group (no padding), a lone padding character, white space only
			{"truncated-base64", sid, strconv.Itoa(nextSeq % 65536), []string{"QUJDQQ", "QUJDQ", "Q", "QUJDQQ=", "="}[ch.Int("workload", 5)], "bad-request"},
			// a packet without data is a packet all the same: out of sequence it is refused
			{"wrong-seq-empty", sid, strconv.Itoa((nextSeq + 7) % 65536), "", "unexpected-request"},
			// a sequence number that is no number between 0 and 65535: the packet is undecodable, which is a matter
			// between the two ends of this stream (a stanza error), not a reason to end the whole session
			{"seq-not-a-packet-number", sid, []string{"70000", "65536", "-1", "abc", "0x1", "1.5", "99999999999999999999"}[ch.Int("workload", 7)], "QUJD", "bad-request"},
		}
		if tailA == 0 && !reverse && len(payload)%3 == 0 {
			// … and in sequence it uses up its number: the same number once more, now with data, is out of sequence. (The
			// opener's own writer sends nothing after this - no unflushed tail, no incomplete base64 group held back for Close - so nobody misses the number.)
			injs = append(injs, inj{"empty-then-replay", sid, strconv.Itoa(nextSeq % 65536), "", "unexpected-request"})
		}
		var lbPlain []byte
		if tailA == 0 && !reverse && len(payload)%3 == 0 {
			// a packet in sequence whose base64 text is wrapped into lines (what MIME encoders produce): the receiver may
			// take it - then exactly the encoded bytes arrive - or refuse it as not base64 - then nothing arrives
			lbPlain = []byte([]string{"ABCDEFGHI", "Hello", "line-wrapped base64 text of some length.", "ab"}[ch.Int("workload", 4)])
			enc := base64.StdEncoding.EncodeToString(lbPlain)
			var wrapped strings.Builder
			brk := []string{"\n", "\r\n", "\n\n\n\n"}[ch.Int("workload", 3)]
			step := 1 + ch.Int("workload", 8)
			for i := 0; i < len(enc); i += step {
				wrapped.WriteString(enc[i:min(len(enc), i+step)])
				wrapped.WriteString(brk)
			}
			injs = append(injs, inj{"linebreak-base64", sid, strconv.Itoa(nextSeq % 65536), wrapped.String(), "result-or-bad-request"})
		}
		// a second open request that names the session id of the stream that is live: there is one stream per id, so
		// the request cannot be granted - and the stream that is live must not notice
		injs = append(injs, inj{"open-live-sid", sid, "0", "", "any-error"})
		if !ack && tailA == 0 && !reverse && len(payload)%3 == 0 {
			// message carrier: a data packet in sequence that shares its message with other payloads (delivery hints, AMP
			// rules: XEP-0047 shows such messages), in front of and behind <data/>. It is a packet like any other.
			injs = append(injs, inj{"message-with-siblings", sid, strconv.Itoa(nextSeq % 65536), base64.StdEncoding.EncodeToString([]byte("sibling payloads")), ""})
		}
		in := injs[ch.Int("workload", len(injs))]
		if injs[len(injs)-1].name == "message-with-siblings" && ch.Chance("workload", 1, 2) {
			in = injs[len(injs)-1]
		}
		if in.name == "linebreak-base64" {
			in.want = "" // decided below
		}
		viaMessage := false
		if in.name == "message-with-siblings" {
			before, after := []string{"", `<no-store xmlns="urn:xmpp:hints"/>`, `<body>x</body><no-copy xmlns="urn:xmpp:hints"/>`}[ch.Int("workload", 3)], []string{"", `<amp xmlns="http://jabber.org/protocol/amp"><rule action="error" condition="match-resource" value="exact"/></amp>`, `<store xmlns="urn:xmpp:hints"/>`}[ch.Int("workload", 3)]
			var serr error
			it := rc.Spawn("injector-msg", func() {
				ictx, c2 := context.WithTimeout(ctx, 20*time.Second)
				defer c2()
				serr = p.A.Send(ictx, xml.NewDecoder(strings.NewReader(fmt.Sprintf(`<message xmlns="jabber:client" to="%s" id="injm">%s<data xmlns="%s" sid="%s" seq="%s">%s</data>%s</message>`, bJID, before, ibb.NS, escText(in.sid), in.seq, in.data, after))))
			})
			rc.S.Run(func() bool { return it.Done() }, 200000, time.Minute)
			rc.Fire("inject-" + in.name)
			payload = append(append([]byte(nil), payload...), []byte("sibling payloads")...)
			must1 = len(payload)
			rc.S.Run(func() bool { return len(rdB.got) >= len(payload) || p.DoneB }, 200000, 10*time.Second)
			rc.Evals["C15.c2"]++
			if serr == nil && !bytes.Equal(rdB.got, payload) {
				rc.Failf("C15.c2", "bytes-differ:message-with-siblings", "a data packet in sequence, carried by a message that has other payloads too (before: %q, after: %q), was sent to the stream; the reader has %d bytes, want %d (the packet's %d bytes at the end); acceptor's session served: %v", before, after, len(rdB.got), len(payload), len("sibling payloads"), !p.DoneB)
				rc.Describe("a wrote last: %s", tail(p.CA.Out().Tap, 500))
				rc.Describe("b wrote last: %s", tail(p.CB.Out().Tap, 300))
			}
			viaMessage = true
		}
		if !viaMessage {
		if in.name == "empty-then-replay" {
			first := rc.Spawn("injector-empty", func() {
				ictx, c2 := context.WithTimeout(ctx, 20*time.Second)
				defer c2()
				r, err := p.A.SendIQ(ictx, stanza.IQ{Type: stanza.SetIQ, To: bJID, ID: "inj0"}.Wrap(xmlstream.Wrap(nil,
					xml.StartElement{Name: xml.Name{Space: ibb.NS, Local: "data"}, Attr: []xml.Attr{{Name: xml.Name{Local: "sid"}, Value: in.sid}, {Name: xml.Name{Local: "seq"}, Value: in.seq}}})))
				if err == nil {
					r.Close()
				}
			})
			rc.S.Run(func() bool { return first.Done() }, 200000, time.Minute)
			in.data = "QUJD"
		}
		var cond string
		var ierr error
		it := rc.Spawn("injector", func() {
			ictx, c2 := context.WithTimeout(ctx, 20*time.Second)
			defer c2()
			injPayload := xmlstream.Wrap(xmlstream.Token(xml.CharData(in.data)),
				xml.StartElement{Name: xml.Name{Space: ibb.NS, Local: "data"}, Attr: []xml.Attr{{Name: xml.Name{Local: "sid"}, Value: in.sid}, {Name: xml.Name{Local: "seq"}, Value: in.seq}}})
			if in.name == "open-live-sid" {
				injPayload = xmlstream.Wrap(nil, xml.StartElement{Name: xml.Name{Space: ibb.NS, Local: "open"}, Attr: []xml.Attr{{Name: xml.Name{Local: "sid"}, Value: in.sid}, {Name: xml.Name{Local: "block-size"}, Value: "64"}, {Name: xml.Name{Local: "stanza"}, Value: "iq"}}})
			}
			r, err := p.A.SendIQ(ictx, stanza.IQ{Type: stanza.SetIQ, To: bJID, ID: "inj1"}.Wrap(injPayload))
			if err != nil {
				ierr = err
				return
			}
			defer r.Close()
			tok, _ := r.Token()
			st, _ := tok.(xml.StartElement)
			if (Elem{Start: st}).Attr("type") != "error" {
				cond = "result"
				return
			}
			for {
				tok, err := r.Token()
				if err != nil {
					return
				}
				if s2, ok := tok.(xml.StartElement); ok && s2.Name.Space == "urn:ietf:params:xml:ns:xmpp-stanzas" {
					cond = s2.Name.Local
					return
				}
			}
		})
		rc.S.Run(func() bool { return it.Done() }, 200000, time.Minute)
		rc.Fire("inject-" + in.name)
		rc.Evals["C15.c4"]++
		if in.name == "linebreak-base64" {
			if it.Done() && ierr == nil && cond == "result" {
				// accepted: the reader's stream continues with exactly these bytes
				payload = append(append([]byte(nil), payload...), lbPlain...)
				must1 = len(payload)
				rc.S.Run(func() bool { return len(rdB.got) >= len(payload) }, 200000, 10*time.Second)
				rc.Evals["C15.c2"]++
				if !bytes.Equal(rdB.got, payload) {
					rc.Failf("C15.c2", "bytes-differ:line-wrapped-base64", "a data packet whose base64 text is wrapped into lines was accepted, but the reader did not get exactly the encoded bytes: it has %d bytes, want %d; tail %q, want tail %q", len(rdB.got), len(payload), clip(string(rdB.got[max(0, len(rdB.got)-len(lbPlain)-4):]), 60), clip(string(payload[max(0, len(payload)-len(lbPlain)-4):]), 60))
				}
				in.want = "result"
			} else {
				in.want = "bad-request"
			}
		}
		if in.want == "any-error" && it.Done() && ierr == nil && cond != "" && cond != "result" {
			in.want = cond
		}
		if !it.Done() || ierr != nil || cond != in.want {
			rc.Failf("C15.c4", "bad-packet-not-refused:"+in.name, "injected %s packet: want stanza error %s, got %q (err %v, returned %v)", in.name, in.want, cond, ierr, it.Done())
		}
		}
		// … and never disturbs data already delivered
		rc.S.Run(nil, 2000, time.Second)
		checkPrefix("a->b after "+in.name, rdB.got, payload)
		if !bytes.HasPrefix(payload, rdB.got) {
			rc.Failf("C15.c4", "bad-packet-delivered:"+in.name, "the refused %s packet changed the reader's stream (%d bytes read, %d written)", in.name, len(rdB.got), len(payload))
		}
	}
	// phase 4: close, drain, end-of-file
	phase = 1
	if closer != 2 {
		rc.S.Run(func() bool {
			// the reader(s) reached the end and the closing call itself has returned
			return rdB.done && (!reverse || rdA.done) && ((closer != 0 && closer != 3) || opener.Done()) && ((closer != 1 && closer != 3) || accT.Done())
		}, 400000, time.Minute)
		rc.Evals["C15.c2"]++
		if closer == 3 {
			// crossing closes: each Close call returns, nobody panics (c6), and both readers get everything and end-of-file
			rc.Check("C15.c2", "crossing-close-stuck", opener.Done() && accT.Done(), "both ends closed at once and a Close call has not returned (opener done=%v, acceptor done=%v); stuck %v", opener.Done(), accT.Done(), rc.S.Stuck())
			_ = closeErrB
			// what each side still had in flight when the other side's close completed may be lost (each end has declared
			// itself done); what was read is a prefix of what was written, and every Read call has returned
			checkPrefix("a->b crossing close", rdB.got, payload)
			rc.Check("C15.c2", "reader-stuck-after-crossing-close:a->b", rdB.done, "both ends closed but the acceptor's reader is still blocked (%d/%d bytes); stuck %v", len(rdB.got), len(payload), rc.S.Stuck())
			if reverse {
				checkPrefix("b->a crossing close", rdA.got, payload2)
				rc.Check("C15.c2", "reader-stuck-after-crossing-close:b->a", rdA.done, "both ends closed but the opener's reader is still blocked (%d/%d bytes); stuck %v", len(rdA.got), len(payload2), rc.S.Stuck())
			}
		}
		if closer == 0 {
			// the opener closed: the acceptor's reader drains and reads end-of-file
			if !rdB.done || !rdB.eof {
				rc.Failf("C15.c2", "no-eof-after-close:a->b", "the opener closed the stream (Close returned %v) but the acceptor's reader did not reach end-of-file (done=%v err=%v, %d/%d bytes); stuck %v", closeErrA, rdB.done, rdB.err, len(rdB.got), len(payload), rc.S.Stuck())
			} else if !bytes.Equal(rdB.got, payload) {
				rc.Failf("C15.c2", "bytes-lost-at-close:a->b", "after Close the reader has %d bytes, %d were written", len(rdB.got), len(payload))
			}
		}
		if closer == 1 && tailA > 0 {
			// the acceptor closed while the opener still held unflushed bytes: the acceptor's own reader gets them, then end-of-file
			if !rdB.done || !rdB.eof {
				rc.Failf("C15.c2", "no-eof-after-own-close:a->b", "the acceptor closed the stream but its own reader did not reach end-of-file (done=%v err=%v, %d/%d bytes); stuck %v", rdB.done, rdB.err, len(rdB.got), len(payload), rc.S.Stuck())
			} else if !bytes.Equal(rdB.got, payload) {
				rc.Failf("C15.c2", "peer-tail-lost-at-close:a->b", "the acceptor closed while the opener held %d written but unflushed bytes: the acceptor's reader has %d of %d bytes", tailA, len(rdB.got), len(payload))
			}
		}
		if closer == 0 && tailB > 0 {
			if !rdA.done || !rdA.eof {
				rc.Failf("C15.c2", "no-eof-after-own-close:b->a", "the opener closed the stream but its own reader did not reach end-of-file (done=%v err=%v, %d/%d bytes); stuck %v", rdA.done, rdA.err, len(rdA.got), len(payload2), rc.S.Stuck())
			} else if !bytes.Equal(rdA.got, payload2) {
				rc.Failf("C15.c2", "peer-tail-lost-at-close:b->a", "the opener closed while the acceptor held %d written but unflushed bytes: the opener's reader has %d of %d bytes", tailB, len(rdA.got), len(payload2))
			}
		}
		if closer == 1 && reverse {
			if !rdA.done || !rdA.eof {
				rc.Failf("C15.c2", "no-eof-after-close:b->a", "the acceptor closed the stream but the opener's reader did not reach end-of-file (done=%v err=%v, %d/%d bytes); stuck %v", rdA.done, rdA.err, len(rdA.got), len(payload2), rc.S.Stuck())
			} else if !bytes.Equal(rdA.got, payload2) {
				rc.Failf("C15.c2", "bytes-lost-at-close:b->a", "after Close the reader has %d bytes, %d were written", len(rdA.got), len(payload2))
			}
		}
	}
	// phase 5: a packet for the session that was closed is refused like one for an unknown session
	if closer < 2 && !wrap && rdB.done && rdB.eof && ch.Chance("workload", 1, 2) {
		n := 0
		for _, e := range ParseWire(p.CA.Out().Tap).Elems {
			for _, t := range e.Toks {
				if st, ok := t.(xml.StartElement); ok && st.Name.Local == "data" {
					n++
				}
			}
		}
		before := len(rdB.got)
		var cond string
		var ierr error
		it := rc.Spawn("injector-closed", func() {
			ictx, c2 := context.WithTimeout(ctx, 20*time.Second)
			defer c2()
			r, err := p.A.SendIQ(ictx, stanza.IQ{Type: stanza.SetIQ, To: bJID, ID: "inj2"}.Wrap(xmlstream.Wrap(xmlstream.Token(xml.CharData("QUJD")),
				xml.StartElement{Name: xml.Name{Space: ibb.NS, Local: "data"}, Attr: []xml.Attr{{Name: xml.Name{Local: "sid"}, Value: sid}, {Name: xml.Name{Local: "seq"}, Value: strconv.Itoa(n % 65536)}}})))
			if err != nil {
				ierr = err
				return
			}
			defer r.Close()
			tok, _ := r.Token()
			st, _ := tok.(xml.StartElement)
			if (Elem{Start: st}).Attr("type") != "error" {
				cond = "result"
				return
			}
			for {
				tok, err := r.Token()
				if err != nil {
					return
				}
				if s2, ok := tok.(xml.StartElement); ok && s2.Name.Space == "urn:ietf:params:xml:ns:xmpp-stanzas" {
					cond = s2.Name.Local
					return
				}
			}
		})
		rc.S.Run(func() bool { return it.Done() }, 200000, time.Minute)
		rc.Fire("inject-closed-sid")
		rc.Evals["C15.c4"]++
		who := map[int]string{0: "opener", 1: "acceptor"}[closer]
		if !it.Done() || ierr != nil || cond != "item-not-found" {
			rc.Failf("C15.c4", "bad-packet-not-refused:closed-sid:closed-by-"+who, "data packet for the session the %s closed: want stanza error item-not-found, got %q (err %v, returned %v)", who, cond, ierr, it.Done())
		}
		if len(rdB.got) != before {
			rc.Failf("C15.c4", "bad-packet-delivered:closed-sid", "a packet for the closed session reached the reader")
		}
	}
	// phase 6: the session id is used again for a new stream; the connection values of the first one are still around
	// and whoever holds them may close them again (a deferred Close): that is a no-op and the new stream is not affected
	if closer < 2 && !wrap && !overflow && acceptMode <= 2 && rdB.done && rdB.eof && opener.Done() && accT.Done() && connA != nil && connB != nil && ch.Chance("workload", 1, 2) {
		p3, p4 := genPayload(rc, block), genPayload(rc, block)
		var c2A *ibb.Conn
		var c2B net.Conn
		var o2err, a2err, w3err, w4err, c2err error
		var r2A, r2B ibbReader
		acc2 := rc.Spawn("acceptor-2", func() { c2B, a2err = lst.Accept() })
		stage := 0
		op2 := rc.Spawn("opener-2", func() {
			simrt.WaitUntil("opener-2:acceptor-ready", func() bool { return strings.HasPrefix(acc2.Site, "blocked:ibb/listen.go") || acc2.Done() })
			octx, ocancel := context.WithTimeout(ctx, 30*time.Second)
			defer ocancel()
			c2A, o2err = hA.OpenIQ(octx, stanza.IQ{To: bJID}, p.A, ack, uint16(block), sid)
		})
		rc.S.Run(func() bool { return op2.Done() && acc2.Done() }, 400000, time.Minute)
		rc.Fire("sid-reused")
		rc.Evals["C15.c1"]++
		if !op2.Done() || !acc2.Done() || o2err != nil || a2err != nil || c2A == nil || c2B == nil {
			rc.Failf("C15.c1", "reopen-same-sid-failed", "a second stream with the session id of the closed one: open returned %v (done=%v), accept returned %v (done=%v); stuck %v", o2err, op2.Done(), a2err, acc2.Done(), rc.S.Stuck())
			finishC15(rc, p, &phase)
			return
		}
		stale := rc.Spawn("stale-close", func() {
			// both old connection values, in a drawn order, each possibly twice
			cs := []io.Closer{connA, connB}
			if ch.Chance("workload", 1, 2) {
				cs[0], cs[1] = cs[1], cs[0]
			}
			for _, c := range cs {
				for i, n := 0, ch.Range("workload", 0, 2); i < n; i++ {
					simrt.Yield("stale-close")
					c.Close()
				}
			}
		})
		rc.Spawn("reader-2a", func() { readAll(rc, c2A, &r2A, rbuf) })
		rc.Spawn("reader-2b", func() { readAll(rc, c2B, &r2B, rbuf) })
		w3 := rc.Spawn("writer-2a", func() {
			w3err = writeAll(c2A, c2A.Flush, p3, "w3", 0)
			simrt.WaitUntil("close-2", func() bool { return stage == 1 })
			c2err = c2A.Close()
		})
		w4 := rc.Spawn("writer-2b", func() { w4err = writeAll(c2B, c2B.(*ibb.Conn).Flush, p4, "w4", 0) })
		// what was flushed (whole base64 groups) becomes readable without further writes
		m3, m4 := len(p3)-len(p3)%3, len(p4)-len(p4)%3
		rc.S.Run(func() bool { return stale.Done() && w4.Done() && len(r2A.got) >= m4 && len(r2B.got) >= m3 }, 800000, time.Minute)
		rc.Evals["C15.c2"]++
		if w3err != nil || w4err != nil {
			rc.Failf("C15.c2", "write-failed:reused-sid", "writing to the second stream under the reused session id failed: a->b %v, b->a %v", w3err, w4err)
		} else if len(r2B.got) < m3 || len(r2A.got) < m4 || !bytes.HasPrefix(p3, r2B.got) || !bytes.HasPrefix(p4, r2A.got) {
			rc.Failf("C15.c2", "bytes-differ:reused-sid", "second stream under the reused session id: a->b read %d of %d flushed bytes, b->a read %d of %d flushed bytes (writers done %v %v); stuck %v", len(r2B.got), m3, len(r2A.got), m4, w3.Done(), w4.Done(), rc.S.Stuck())
		}
		stage = 1
		rc.S.Run(func() bool { return w3.Done() && r2A.done && r2B.done }, 400000, time.Minute)
		if w3err == nil && w4err == nil {
			rc.Check("C15.c2", "no-eof-after-close:reused-sid", w3.Done() && c2err == nil && r2B.done && r2B.eof && r2A.done && r2A.eof, "second stream under the reused session id closed by its opener (Close returned %v, done %v): acceptor's reader done=%v eof=%v, opener's reader done=%v eof=%v; stuck %v", c2err, w3.Done(), r2B.done, r2B.eof, r2A.done, r2A.eof, rc.S.Stuck())
			rc.Check("C15.c2", "bytes-lost-at-close:reused-sid", !r2B.eof || !r2A.eof || (bytes.Equal(r2B.got, p3) && bytes.Equal(r2A.got, p4)), "second stream under the reused session id after its close: a->b read %d of %d bytes, b->a read %d of %d bytes", len(r2B.got), len(p3), len(r2A.got), len(p4))
		}
	}
	finishC15(rc, p, &phase)
}

func finishC15(rc *RC, p *Pair, phase *int) {
	if *phase == 0 {
		*phase = 2 // wind-up without Close
	}
	rc.Spawn("end", func() { p.A.Close(); p.B.Close() })
	rc.S.Run(func() bool { return p.DoneA && p.DoneB }, 400000, time.Minute)
	stuck := rc.Teardown()
	rc.CheckPanics("C15.c6")
	var real []string
	for _, s := range stuck {
		// a reader of a stream that nobody closed stays in Read when the session goes away: the statement says nothing about that
		if strings.Contains(s, "reader-") && strings.Contains(s, "ibb/conn.go") {
			continue
		}
		real = append(real, s)
	}
	rc.Check("C15.c6", "stuck-after-teardown", len(real) == 0, "tasks still blocked after teardown: %v", real)
	_ = errors.Is
}

func checkPrefix0(rc *RC, label string, got, want []byte) {
	rc.Evals["C15.c2"]++
	if !bytes.HasPrefix(want, got) {
		rc.Failf("C15.c2", "bytes-differ:"+label, "%s: bytes read (%d) are not a prefix of the bytes written (%d)", label, len(got), len(want))
	}
}

// ibbAccepted decodes the data packets of stream sid in out whose IQ was answered with a result in back.
func ibbAccepted(out, back []byte, sid string) []byte {
	ok := map[string]bool{}
	for _, e := range ParseWire(back).Elems {
		if e.Start.Name.Local == "iq" && e.Attr("type") == "result" {
			ok[e.Attr("id")] = true
		}
	}
	var all []byte
	for _, e := range ParseWire(out).Elems {
		if !ok[e.Attr("id")] {
			continue
		}
		for i, t := range e.Toks {
			st, isStart := t.(xml.StartElement)
			if !isStart || st.Name.Local != "data" || (Elem{Start: st}).Attr("sid") != sid || i+1 >= len(e.Toks) {
				continue
			}
			if cd, isCD := e.Toks[i+1].(xml.CharData); isCD {
				b, _ := base64.StdEncoding.DecodeString(string(bytes.TrimSpace(cd)))
				all = append(all, b...)
			}
		}
	}
	return all
}

// checkIBBWire: data packets numbered consecutively from zero modulo 65536,
// payloads whose concatenated decoding equals the written bytes.
func checkIBBWire(rc *RC, tap []byte, sid string, atLeast, written []byte, label string) {
	w := ParseWire(tap)
	if w.Err != nil {
		rc.Failf("C15.c3", "wire-malformed:"+label, "output not well-formed: %v", w.Err)
		return
	}
	var all []byte
	next := 0
	rc.Evals["C15.c3"]++
	for _, e := range w.Elems {
		if e.Attr("id") == "inj1" || e.Attr("id") == "inj2" {
			continue
		}
		for i, t := range e.Toks {
			st, ok := t.(xml.StartElement)
			if !ok || st.Name.Local != "data" || st.Name.Space != ibb.NS {
				continue
			}
			d := Elem{Start: st}
			if d.Attr("sid") != sid {
				continue
			}
			seq, _ := strconv.Atoi(d.Attr("seq"))
			if seq != next%65536 {
				rc.Failf("C15.c3", "sequence-not-consecutive:"+label, "%s: data packet %d carries seq %d", label, next, seq)
				return
			}
			next++
			if i+1 < len(e.Toks) {
				if cd, ok := e.Toks[i+1].(xml.CharData); ok {
					b, err := base64.StdEncoding.DecodeString(string(bytes.TrimSpace(cd)))
					if err != nil {
						rc.Failf("C15.c3", "packet-not-base64:"+label, "%s: packet %d is not valid base64: %v", label, seq, err)
						return
					}
					all = append(all, b...)
				}
			}
		}
	}
	if !bytes.HasPrefix(written, all) || len(all) < len(atLeast) {
		rc.Failf("C15.c3", "wire-payload-differs:"+label, "%s: the packets on the wire decode to %d bytes %q, %d were written and flushed", label, len(all), clip(string(all), 40), len(written))
	}
}

var errListenerClosed = errors.New("harness: listener closed by the application")

func commonPrefix(a, b []byte) int {
	n := 0
	for n < len(a) && n < len(b) && a[n] == b[n] {
		n++
	}
	return n
}
