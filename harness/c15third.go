package harness

import (
	"bytes"
	"context"
	"fmt"
	"time"

	"mellium.im/xmpp/ibb"
	"mellium.im/xmpp/jid"
	"mellium.im/xmpp/mux"
	"mellium.im/xmpp/stanza"
	"verif.sim/simrt"
)

// runC15Third: three entities. B serves two sessions - one with A, one with C - with ONE ibb.Handler (as a server
// component or a multi-account client does). A has a stream to B under session id X. C then asks B for a stream under
// the same id: there is one stream per id on B's handler, so C is refused - and A's stream does not notice: everything A
// writes before and after arrives, exactly once and in order, and B's reader reads end-of-file when A has closed.
func runC15Third(rc *RC) {
	ch := rc.Ch
	strat := rc.S.ConfigureStrategy()
	p1 := rc.NewPair(ch.Chance("workload", 1, 2))
	if p1 == nil {
		return
	}
	p2 := rc.NewPairAs(false, "2", "c@other.example/rc")
	if p2 == nil {
		return
	}
	hA, hB, hC := &ibb.Handler{}, &ibb.Handler{}, &ibb.Handler{}
	p1.Serve(mux.New(stanza.NSClient, ibb.Handle(hA)), mux.New(stanza.NSClient, ibb.Handle(hB)))
	p2.Serve(mux.New(stanza.NSClient, ibb.Handle(hC)), mux.New(stanza.NSClient, ibb.Handle(hB)))
	ack := ch.Chance("workload", 1, 2)
	block := []int{3, 16, 64, 4096}[ch.Int("workload", 4)]
	sid := "shared-sid"
	part1, part2 := genPayload(rc, block), genPayload(rc, block)
	rc.Describe("third entity: strategy=%s carrier-iq=%v block=%d len=%d+%d", strat, ack, block, len(part1), len(part2))
	rc.CaseKey = fmt.Sprint("third", ack, block)
	rc.Fire("third-entity")
	ctx, cancel := context.WithTimeout(context.Background(), 5*time.Minute)
	rc.OnCleanup(cancel)
	lst := hB.Listen(p1.B)
	var rd ibbReader
	var acceptErr error
	rc.Spawn("acceptor", func() {
		c, err := lst.Accept()
		if err != nil {
			acceptErr = err
			rd.done = true
			return
		}
		readAll(rc, c, &rd, 64)
	})
	writeAll := func(c interface {
		Write([]byte) (int, error)
	}, fl func() error, data []byte, label string, _ int) error {
		for len(data) > 0 {
			k := 1 + ch.Int(label, min(len(data), 1+block*2))
			n, err := c.Write(data[:k])
			if err != nil {
				return fmt.Errorf("Write: %w", err)
			}
			if n != k {
				return fmt.Errorf("short write %d of %d", n, k)
			}
			data = data[k:]
			if ch.Chance(label, 1, 3) {
				if err := fl(); err != nil {
					return fmt.Errorf("Flush: %w", err)
				}
			}
		}
		if err := fl(); err != nil {
			return fmt.Errorf("Flush: %w", err)
		}
		return nil
	}
	var openErr, werr, closeErr, thirdErr error
	thirdDone, part1Out := false, false
	a := rc.Spawn("opener", func() {
		octx, oc := context.WithTimeout(ctx, 30*time.Second)
		defer oc()
		conn, err := hA.OpenIQ(octx, stanza.IQ{To: jid.MustParse("example.net")}, p1.A, ack, uint16(block), sid)
		if err != nil {
			openErr = err
			return
		}
		werr = writeAll(conn, conn.Flush, part1, "wa", 0)
		part1Out = true
		simrt.WaitUntil("opener:third-done", func() bool { return thirdDone })
		if werr == nil {
			werr = writeAll(conn, conn.Flush, part2, "wa2", 0)
		}
		closeErr = conn.Close()
	})
	c := rc.Spawn("third", func() {
		defer func() { thirdDone = true }()
		simrt.WaitUntil("third:stream-live", func() bool { return part1Out || openErr != nil || a.Done() })
		if ch.Chance("workload", 1, 2) {
			simrt.Sleep(time.Duration(ch.Range("workload", 0, 30)) * time.Millisecond)
		}
		octx, oc := context.WithTimeout(ctx, 30*time.Second)
		defer oc()
		conn, err := hC.OpenIQ(octx, stanza.IQ{To: jid.MustParse("other.example")}, p2.A, ack, uint16(block), sid)
		thirdErr = err
		if err == nil && conn != nil {
			thirdErr = nil
		}
		// whatever C's library does after the refusal has happened when its serve loop is idle again
		simrt.Sleep(50 * time.Millisecond)
	})
	st := rc.S.Run(func() bool { return a.Done() && c.Done() && rd.done }, 400000, 3*time.Minute)
	rc.Evals["C15.c1"]++
	if openErr != nil || acceptErr != nil {
		rc.Failf("C15.c1", "open-failed:third-entity", "the first stream could not be opened: open %v accept %v (status %v, stuck %v)", openErr, acceptErr, st, rc.S.Stuck())
	} else {
		if !c.Done() {
			rc.Failf("C15.c1", "second-open-for-live-sid-stuck:third-entity", "a third entity's open request for the session id of a live stream has not come back; stuck %v", rc.S.Stuck())
		} else if thirdErr == nil {
			rc.Failf("C15.c1", "second-open-for-live-sid-granted:third-entity", "a third entity was granted a stream under the session id of a stream that is live on the responder's handler")
		}
		want := append(append([]byte(nil), part1...), part2...)
		rc.Evals["C15.c2"]++
		if werr != nil || closeErr != nil {
			rc.Failf("C15.c2", "live-stream-disturbed:third-entity", "after a third entity's refused open request for its session id the live stream failed: write %v, close %v (reader has %d of %d bytes, eof=%v)", werr, closeErr, len(rd.got), len(want), rd.eof)
		} else if !a.Done() || !rd.done || !bytes.Equal(rd.got, want) || !rd.eof {
			rc.Failf("C15.c2", "live-stream-disturbed:third-entity", "after a third entity's refused open request for its session id the reader of the live stream has %d of %d bytes (equal prefix %d), done=%v eof=%v err=%v; opener done=%v; stuck %v", len(rd.got), len(want), commonPrefix(rd.got, want), rd.done, rd.eof, rd.err, a.Done(), rc.S.Stuck())
		}
	}
	rc.Spawn("end", func() { p1.A.Close(); p1.B.Close(); p2.A.Close(); p2.B.Close() })
	rc.S.Run(func() bool { return p1.DoneA && p1.DoneB && p2.DoneA && p2.DoneB }, 400000, time.Minute)
	stuck := rc.Teardown()
	rc.CheckPanics("C15.c6")
	rc.Check("C15.c6", "stuck-after-teardown", len(stuck) == 0, "tasks still blocked after teardown: %v", stuck)
}
