package harness

import (
	"bytes"
	"fmt"
	"io"
	"sort"
	"strings"
	"time"

	"golang.org/x/text/transform"
	"mellium.im/xmpp/jid"
	"verif.sim/simrt"
)

// C16 — JID escaping is a lossless, chunk-independent transform. The part
// decided here by fault injection is the I/O half: the result must not depend
// on how the source is split across Transform calls, how small the
// destination is, or how a transform.Reader/Writer is fed. The pure half is
// evaluated on the same generated strings.

func init() {
	register(&Scenario{ID: "C16", Run: runC16, NoSched: true, Alt: runC16Concurrent, AltEvery: 24})
}

// runC16Concurrent: the exported transformers are package-level values that every caller shares. Two to four callers
// use them at the same time (String, Bytes, chunked Transform calls, transform.Reader) under the controlled scheduler
// with statement-level preemption (instrumenter rule 7, every site armed); every caller's result must be the one the
// same call gives alone, which must be the reference model's.
func runC16Concurrent(rc *RC) {
	ch := rc.Ch
	rc.S.Strat = simrt.StratUniform
	n := 2 + ch.Int("workload", 3)
	type job struct {
		in, ref, alone, got []byte
		name, via          string
		dir, how           int
		cuts               []int
		maxDst, rmax       int
		fail               string
		panicked           any
	}
	jobs := make([]*job, n)
	apply := func(j *job) (out []byte, fail string) {
		tr := jid.Escape
		if j.dir == 1 {
			tr = jid.Unescape
		}
		switch j.how {
		case 0:
			return tr.Bytes(append([]byte(nil), j.in...)), ""
		case 1:
			return []byte(tr.String(string(j.in))), ""
		case 2:
			out, _, fail = driveTransform(rc, tr, j.in, j.cuts, j.maxDst)
			return out, fail
		default:
			sr := &shortReader{rc: rc, b: append([]byte(nil), j.in...), max: j.rmax, errAt: -1}
			got, err := io.ReadAll(transform.NewReader(sr, tr))
			if err != nil {
				return got, err.Error()
			}
			return got, ""
		}
	}
	for i := range jobs {
		j := &job{in: genEscInput(rc), dir: ch.Int("workload", 2), how: ch.Int("workload", 4)}
		if len(j.in) == 0 {
			j.in = []byte("a@b c")
		}
		j.name, j.via = "Escape", []string{"Bytes", "String", "Transform", "Reader"}[j.how]
		j.ref = refEscape(j.in)
		if j.dir == 1 {
			j.name, j.ref = "Unescape", refUnescape(j.in)
		}
		for k, m := 0, ch.Int("chunk", 5); k < m; k++ {
			j.cuts = append(j.cuts, ch.Int("chunk", len(j.in)+1))
		}
		sort.Ints(j.cuts)
		j.maxDst = []int{4, 9, 40, len(j.in) + 3}[ch.Int("chunk", 4)]
		j.rmax = []int{1, 3, 17, 300}[ch.Int("chunk", 4)]
		// the same call alone, before anybody else runs (dense preemption not armed yet)
		func() {
			defer func() {
				if r := recover(); r != nil {
					j.fail = fmt.Sprint("panic alone: ", r)
				}
			}()
			var f string
			j.alone, f = apply(j)
			if f != "" {
				j.fail = f
			}
		}()
		jobs[i] = j
		rc.Describe("caller %d: %s via %s in=%q", i, j.name, j.via, clip(string(j.in), 60))
	}
	rc.CaseKey = "concurrent"
	rc.Nontrivial = true
	rc.S.ForceDense([]int{2, 3, 6}[ch.Int("workload", 3)])
	for i, j := range jobs {
		j := j
		rc.Spawn(fmt.Sprintf("caller%d", i), func() {
			defer func() {
				if r := recover(); r != nil {
					j.panicked = r
				}
			}()
			var f string
			j.got, f = apply(j)
			if f != "" && j.fail == "" {
				j.fail = "concurrent: " + f
			}
		})
	}
	st := rc.S.Run(nil, 400000, time.Minute)
	if st != simrt.AllDone {
		rc.Infraf("C16 concurrent callers did not finish: %v %v", st, rc.S.Stuck())
	}
	rc.Fire("concurrent-callers")
	for i, j := range jobs {
		if j.alone != nil && j.fail == "" && !bytes.Equal(j.alone, j.ref) {
			continue // a sequential defect: the sequential runs report it
		}
		rc.Evals["C16.c5"]++
		if j.panicked != nil {
			rc.Failf("C16.c5", "panic-concurrent:"+j.name+"/"+j.via, "%s via %s on %q panicked while %d other callers used the transformers: %v", j.name, j.via, j.in, n-1, j.panicked)
			continue
		}
		if j.fail != "" && strings.HasPrefix(j.fail, "concurrent: ") {
			rc.Failf("C16.c1", "concurrent-protocol:"+j.name+"/"+j.via, "caller %d, %s via %s on %q, with %d other callers at the same time: %s (alone: fine)", i, j.name, j.via, j.in, n-1, j.fail)
			continue
		}
		if j.fail != "" {
			continue
		}
		rc.Check("C16.c1", "concurrent-differs:"+j.name+"/"+j.via, bytes.Equal(j.got, j.alone), "caller %d, %s via %s on %q: %q with %d other callers at the same time, %q alone", i, j.name, j.via, j.in, j.got, n-1, j.alone)
	}
	if stuck := rc.Teardown(); len(stuck) > 0 {
		rc.Infraf("C16 concurrent: stuck %v", stuck)
	}
}

const escChars = ` "&'/:<>@\`

var escSeqs = map[string]byte{"20": ' ', "22": '"', "26": '&', "27": '\'', "2f": '/', "3a": ':', "3c": '<', "3e": '>', "40": '@', "5c": '\\'}

// refEscape / refUnescape are the reference model (XEP-0106 mapping as the
// property states it).
func refEscape(s []byte) []byte {
	var out []byte
	for _, c := range s {
		if strings.IndexByte(escChars, c) >= 0 {
			out = append(out, '\\', "0123456789abcdef"[c>>4], "0123456789abcdef"[c&15])
		} else {
			out = append(out, c)
		}
	}
	return out
}

func refUnescape(s []byte) []byte {
	var out []byte
	for i := 0; i < len(s); i++ {
		if s[i] == '\\' && i+2 < len(s) {
			if c, ok := escSeqs[strings.ToLower(string(s[i+1:i+3]))]; ok {
				out = append(out, c)
				i += 2
				continue
			}
		}
		out = append(out, s[i])
	}
	return out
}

// genEscInput draws a byte string with escapable characters, backslashes and
// escape-like sequences at positions up to ~300, in particular beyond the
// first bytes and around 128-byte boundaries.
func genEscInput(rc *RC) []byte {
	ch := rc.Ch
	var n int
	switch ch.Int("workload", 4) {
	case 0:
		n = ch.Range("workload", 0, 8)
	case 1:
		n = ch.Range("workload", 120, 136)
	case 2:
		n = ch.Range("workload", 250, 300)
	default:
		n = ch.Range("workload", 0, 64)
	}
	var b []byte
	pieces := []string{"a", "b", "z", "0", "2", "5", "c", "C", "f", " ", "\"", "&", "'", "/", ":", "<", ">", "@", "\\", "\\20", "\\5c", "\\5C", "\\2F", "\\3a", "\\40", "\\4", "\\2", "\\zz", "\\\\", "\\ff", "é", "\xff", "\\2\\20",
		// multi-byte characters whose code point, truncated to a byte, is one of the ten characters (U+4E3A -> ':', U+4E26 -> '&', U+0120 -> ' ', U+0127 -> '\'', U+015C -> '\\', U+0240 -> '@', U+012F -> '/')
		"为", "並", "Ġ", "ħ", "Ŝ", "ɀ", "į", "\u0222", "\u023c", "\u013e"}
	nearMiss := ch.Chance("workload", 1, 3)
	for len(b) < n {
		if nearMiss && ch.Chance("workload", 1, 5) {
			// a backslash followed by two bytes that are hex digits of a defined sequence or one bit away from one
			// (control bytes, other case, neighbours, high bit set)
			d1, d2 := "2345"[ch.Int("workload", 4)], "02567aAcCeEfF"[ch.Int("workload", 13)]
			if ch.Chance("workload", 1, 3) {
				d1 ^= 1 << ch.Int("workload", 8)
			}
			if ch.Chance("workload", 2, 3) {
				d2 ^= 1 << ch.Int("workload", 8)
			}
			b = append(b, '\\', d1, d2)
		} else if ch.Chance("workload", 2, 3) {
			b = append(b, "abcdefghij0123456789"[ch.Int("workload", 20)])
		} else {
			b = append(b, pieces[ch.Int("workload", len(pieces))]...)
		}
	}
	return b
}

// driveTransform applies t to src the way a streaming caller may: src is
// offered in the given pieces (atEOF only with the last one), dst capacity is
// drawn per call; ErrShortDst hands over what was written and continues with
// a fresh buffer, ErrShortSrc supplies more source.
func driveTransform(rc *RC, t transform.Transformer, src []byte, cuts []int, maxDst int) (out []byte, desc string, fail string) {
	ch := rc.Ch
	t.Reset()
	var pending []byte
	pos := 0
	piece := 0
	next := func() bool {
		if pos >= len(src) && piece >= len(cuts)+1 {
			return false
		}
		end := len(src)
		if piece < len(cuts) {
			end = cuts[piece]
		}
		piece++
		pending = append(pending, src[pos:end]...)
		pos = end
		return true
	}
	next()
	calls := 0
	stuck := 0
	for {
		atEOF := pos >= len(src) && piece >= len(cuts)+1
		if len(pending) == 0 && atEOF {
			// a final call with empty source must be harmless
			dst := make([]byte, 8)
			nd, ns, err := t.Transform(dst, nil, true)
			if err != nil || ns != 0 {
				return out, desc, fmt.Sprintf("final empty call returned (%d,%d,%v)", nd, ns, err)
			}
			return append(out, dst[:nd]...), desc, ""
		}
		capN := ch.Range("chunk", 0, maxDst)
		if stuck > 0 {
			capN = 16 * stuck
		}
		dst := make([]byte, capN)
		calls++
		if calls > 4*len(src)+200 {
			return out, desc, "no termination: call budget exhausted"
		}
		nd, ns, err := t.Transform(dst, pending, atEOF)
		if nd < 0 || nd > len(dst) || ns < 0 || ns > len(pending) {
			return out, desc, fmt.Sprintf("Transform returned out-of-range counts (%d,%d) for dst %d src %d", nd, ns, len(dst), len(pending))
		}
		out = append(out, dst[:nd]...)
		pending = pending[ns:]
		if len(desc) < 120 {
			desc += fmt.Sprintf("[d%d s%d eof=%v ->%d,%d,%v]", capN, ns+len(pending), atEOF, nd, ns, errName(err))
		}
		switch err {
		case nil:
			if len(pending) != 0 {
				return out, desc, fmt.Sprintf("nil error with %d source bytes unconsumed", len(pending))
			}
			if atEOF {
				return out, desc, ""
			}
			if !next() {
				continue
			}
			stuck = 0
		case transform.ErrShortDst:
			if nd == 0 && ns == 0 {
				stuck++
				if stuck > 3 {
					return out, desc, fmt.Sprintf("no progress: ErrShortDst with %d bytes of empty destination", capN)
				}
			} else {
				stuck = 0
			}
		case transform.ErrShortSrc:
			if atEOF {
				return out, desc, "ErrShortSrc at EOF"
			}
			next()
			stuck = 0
		default:
			return out, desc, fmt.Sprintf("unexpected error %v", err)
		}
	}
}

func errName(err error) string {
	switch err {
	case nil:
		return "nil"
	case transform.ErrShortDst:
		return "shortdst"
	case transform.ErrShortSrc:
		return "shortsrc"
	case transform.ErrEndOfSpan:
		return "endofspan"
	}
	return err.Error()
}

// shortReader delivers its data in drawn pieces, sometimes zero bytes,
// sometimes (n>0, io.EOF) together.
type shortReader struct {
	rc       *RC
	b        []byte
	max      int
	errAt    int // byte offset at which a read error is injected (-1: never)
	err      error
	eofWith  bool
	errFired bool
}

func (r *shortReader) Read(p []byte) (int, error) {
	if r.errAt == 0 {
		r.rc.Fire("readerr")
		r.errFired = true
		return 0, r.err
	}
	if len(r.b) == 0 {
		return 0, io.EOF
	}
	if len(p) == 0 {
		return 0, nil
	}
	if r.rc.Ch.Chance("chunk", 1, 12) {
		r.rc.Fire("zero-read")
		return 0, nil
	}
	n := 1 + r.rc.Ch.Int("chunk", r.max)
	if n > len(p) {
		n = len(p)
	}
	if n > len(r.b) {
		n = len(r.b)
	}
	if r.errAt > 0 && n > r.errAt {
		n = r.errAt
	}
	copy(p, r.b[:n])
	r.b = r.b[n:]
	if r.errAt > 0 {
		r.errAt -= n
	}
	r.rc.Fire("chunk")
	if len(r.b) == 0 && r.eofWith {
		r.rc.Fire("eof-with-data")
		return n, io.EOF
	}
	return n, nil
}

func runC16(rc *RC) {
	ch := rc.Ch
	in := genEscInput(rc)
	dir := ch.Int("workload", 2)
	var tr jid.Transformer
	var ref []byte
	name := "Escape"
	if dir == 0 {
		tr, ref = jid.Escape, refEscape(in)
	} else {
		name = "Unescape"
		tr, ref = jid.Unescape, refUnescape(in)
	}
	rc.Describe("%s in=%q", name, clip(string(in), 120))
	rc.CaseKey = name
	guard := func(what string, f func()) {
		defer func() {
			if r := recover(); r != nil {
				rc.Failf("C16.c5", "panic:"+name+"/"+what, "%s via %s panicked on %q: %v", name, what, in, r)
			}
		}()
		f()
	}
	rc.Evals["C16.c5"]++
	// one-shot interfaces
	var oneShot []byte
	guard("Bytes", func() { oneShot = tr.Bytes(append([]byte(nil), in...)) })
	var str string
	guard("String", func() { str = tr.String(string(in)) })
	rc.Check("C16.c1", "bytes-vs-string:"+name, string(oneShot) == str, "%s: Bytes %q != String %q", name, oneShot, str)
	// pure half against the reference model
	if dir == 0 {
		rc.Check("C16.c2", "escape-wrong", bytes.Equal(oneShot, ref), "Escape(%q) = %q, reference %q", in, oneShot, ref)
		var back []byte
		guard("roundtrip", func() { back = jid.Unescape.Bytes(append([]byte(nil), oneShot...)) })
		rc.Check("C16.c2", "roundtrip", bytes.Equal(back, in), "Unescape(Escape(%q)) = %q", in, back)
		bad := false
		for i := 0; i < len(oneShot); i++ {
			c := oneShot[i]
			if c == '\\' {
				if i+2 >= len(oneShot) {
					bad = true
				} else if _, ok := escSeqs[string(oneShot[i+1:i+3])]; !ok {
					bad = true
				}
			} else if strings.IndexByte(escChars, c) >= 0 {
				bad = true
			}
		}
		rc.Check("C16.c3", "disallowed-char-in-output", !bad, "Escape(%q) = %q contains a disallowed character", in, oneShot)
	} else {
		rc.Check("C16.c4", "unescape-wrong", bytes.Equal(oneShot, ref), "Unescape(%q) = %q, reference %q", in, oneShot, ref)
	}
	// I/O half: chunked Transform calls with short destinations
	var cuts []int
	for k, n := 0, ch.Int("chunk", 8); k < n && len(in) > 0; k++ {
		cuts = append(cuts, ch.Int("chunk", len(in)+1))
	}
	for i := 1; i < len(cuts); i++ {
		for j := i; j > 0 && cuts[j] < cuts[j-1]; j-- {
			cuts[j], cuts[j-1] = cuts[j-1], cuts[j]
		}
	}
	maxDst := []int{3, 8, 40, len(in) + 3}[ch.Int("chunk", 4)]
	if len(cuts) > 0 {
		rc.Fire("src-split")
	}
	if maxDst < len(ref) {
		rc.Fire("short-dst")
	}
	guard("Transform", func() {
		out, desc, fail := driveTransform(rc, tr, in, cuts, maxDst)
		rc.Describe("cuts=%v maxdst=%d %s", cuts, maxDst, desc)
		rc.Evals["C16.c1"]++
		if fail != "" {
			rc.Failf("C16.c1", "transform-protocol:"+name, "%s chunked (cuts %v, dst<=%d) on %q: %s; calls %s", name, cuts, maxDst, in, fail, desc)
		} else if !bytes.Equal(out, oneShot) {
			rc.Failf("C16.c1", "chunked-differs:"+name, "%s on %q: chunked result %q differs from one-shot %q (cuts %v, dst<=%d; calls %s)", name, in, out, oneShot, cuts, maxDst, desc)
		}
	})
	// transform.Reader over a reader with short reads
	guard("Reader", func() {
		sr := &shortReader{rc: rc, b: append([]byte(nil), in...), max: []int{1, 3, 17, 300}[ch.Int("chunk", 4)], errAt: -1, eofWith: ch.Chance("chunk", 1, 3)}
		got, err := io.ReadAll(transform.NewReader(sr, tr))
		rc.Evals["C16.c1"]++
		if err != nil {
			rc.Failf("C16.c1", "reader-error:"+name, "%s through transform.Reader on %q: %v", name, in, err)
		} else if !bytes.Equal(got, oneShot) {
			rc.Failf("C16.c1", "reader-differs:"+name, "%s on %q: transform.Reader result %q differs from one-shot %q", name, in, got, oneShot)
		}
	})
	// transform.Writer fed in pieces
	guard("Writer", func() {
		var buf bytes.Buffer
		w := transform.NewWriter(&buf, tr)
		rest := in
		var werr error
		for len(rest) > 0 && werr == nil {
			k := 1 + ch.Int("chunk", len(rest))
			_, werr = w.Write(rest[:k])
			rest = rest[k:]
		}
		if werr == nil {
			werr = w.Close()
		}
		rc.Evals["C16.c1"]++
		if werr != nil {
			rc.Failf("C16.c1", "writer-error:"+name, "%s through transform.Writer on %q: %v", name, in, werr)
		} else if !bytes.Equal(buf.Bytes(), oneShot) {
			rc.Failf("C16.c1", "writer-differs:"+name, "%s on %q: transform.Writer result %q differs from one-shot %q", name, in, buf.Bytes(), oneShot)
		}
	})
	// Span agrees with Transform
	guard("Span", func() {
		n, err := tr.Span(in, true)
		rc.Evals["C16.c5"]++
		if n < 0 || n > len(in) {
			rc.Failf("C16.c5", "span-range:"+name, "%s.Span(%q) = %d", name, in, n)
			return
		}
		// the spanned prefix must be unchanged by the transform
		pre := tr.Bytes(append([]byte(nil), in[:n]...))
		if err == nil && n == len(in) {
			rc.Check("C16.c5", "span-vs-transform:"+name, bytes.Equal(oneShot, in), "%s.Span(%q) says unchanged but Transform gives %q", name, in, oneShot)
		} else if err != nil && err != transform.ErrEndOfSpan && err != transform.ErrShortSrc {
			rc.Failf("C16.c5", "span-error:"+name, "%s.Span(%q) = %d, %v", name, in, n, err)
		} else if dir == 0 {
			rc.Check("C16.c5", "span-prefix-changes:"+name, bytes.Equal(pre, in[:n]), "%s.Span(%q) = %d but that prefix transforms to %q", name, in, n, pre)
		}
	})
}
