package harness

import (
	"bytes"
	"errors"
	"fmt"
	"io"
	"strings"

	"mellium.im/xmpp/styling"
)

// C17 — the styling decoder is lossless, chunk-independent and well-bracketed.
// The reader argument is the fault surface: the document is delivered in drawn
// pieces (1 byte … whole), with zero-length reads, (n>0, io.EOF) together and
// a read error at byte k.

func init() { register(&Scenario{ID: "C17", Run: runC17, NoSched: true}) }

type styTok struct {
	data  string
	mask  styling.Style
	quote uint
	info  string
}

func (t styTok) String() string {
	return fmt.Sprintf("{%q %#x q%d i%q}", t.data, uint32(t.mask), t.quote, t.info)
}

// decodeAll runs the decoder to the end; panics are reported by the caller.
func decodeAll(r io.Reader, bound int) (toks []styTok, err error, overrun bool) {
	d := styling.NewDecoder(r)
	for d.Next() {
		t := d.Token()
		toks = append(toks, styTok{data: string(t.Data), mask: d.Style(), quote: d.Quote(), info: string(t.Info)})
		if len(toks) > bound {
			return toks, nil, true
		}
	}
	return toks, d.Err(), false
}

func genStyDoc(rc *RC) []byte {
	ch := rc.Ch
	pieces := []string{"*", "_", "~", "`", "*", "_", " ", " ", "\n", "\n", ">", "> ", ">>", "```", "```\n", "a", "b", "word", "x y", "\t", "\r\n", " ", " ", "\xff", "é", "**", "*a*", "_b_", "~c~", "`d`", "* ", " *", "```go\n", "\n```\n", "\n> ", "```x", ">```\n",
		// truncated multi-byte sequences (the start of a rune whose rest never comes)
		"\xe3\x80", "\xc3", "\xf0\x9f\x98", ">\xe3", "> \xf0\x9f"}
	n := ch.Range("workload", 0, 24)
	if ch.Chance("workload", 1, 8) {
		n = ch.Range("workload", 24, 80)
	}
	var b []byte
	for i := 0; i < n; i++ {
		b = append(b, pieces[ch.Int("workload", len(pieces))]...)
	}
	if ch.Chance("workload", 1, 8) {
		// a line that nests spans as deep as the grammar allows: two or three of the strong/emphasis/strike spans in a
		// drawn order, optionally a preformatted span innermost, every one closed in reverse order; sometimes with one
		// opener twice
		marks := []string{"*", "_", "~"}
		p := ch.Perm("workload", 3)
		k := 2 + ch.Int("workload", 2)
		var open []string
		for _, i := range p[:k] {
			open = append(open, marks[i])
		}
		if ch.Chance("workload", 1, 4) {
			open = append(open, open[ch.Int("workload", len(open))])
		}
		if ch.Chance("workload", 2, 3) {
			open = append(open, "`")
		}
		var line []byte
		for i, m := range open {
			line = append(line, m...)
			line = append(line, byte('a'+i))
			if ch.Chance("workload", 1, 2) && i < len(open)-1 {
				line = append(line, ' ')
			}
		}
		for i := len(open) - 1; i >= 0; i-- {
			line = append(line, open[i]...)
			if i > 0 && ch.Chance("workload", 1, 2) {
				line = append(line, ' ', byte('p'+i))
			}
		}
		line = append([]byte([]string{"", "> ", ">> ", "\n"}[ch.Int("workload", 4)]), line...)
		line = append(line, '\n')
		pos := 0
		if len(b) > 0 && ch.Chance("workload", 1, 2) {
			pos = ch.Int("workload", len(b)+1)
		}
		b = append(b[:pos:pos], append(line, b[pos:]...)...)
	}
	if ch.Chance("workload", 1, 10) {
		// what editors and some clients put in front of a text: a byte order mark, other invisible characters, or only
		// the first bytes of one - followed by a construct that only counts at the start of a line
		pre := []string{"\xef\xbb\xbf", "\xef\xbb", "\xef", "\xe2\x80\x8b", "\xe2\x80\x8e", "\xc2\xa0", "\xff\xfe"}[ch.Int("workload", 7)]
		b = append([]byte(pre+[]string{"> ", "```\n", "*", "", ">"}[ch.Int("workload", 5)]), b...)
	}
	if ch.Chance("workload", 1, 6) {
		// the document ends inside a rune, possibly right after a quote marker
		b = append(b, []string{">", "> ", "\n>", "", ">>"}[ch.Int("workload", 5)]...)
		b = append(b, []string{"\xe3\x80", "\xc3", "\xf0\x9f\x98", "\xe3"}[ch.Int("workload", 4)]...)
	}
	if ch.Chance("workload", 1, 12) {
		// a long run of plain text (longer than any internal look-ahead and than one read) in front of, or around, directives
		k := []int{600, 1023, 1024, 1025, 2000, 4095, 4096, 4100, 9000}[ch.Int("workload", 9)]
		run := bytes.Repeat([]byte("a"), k)
		if ch.Chance("workload", 1, 2) {
			for i := 37; i < len(run); i += 61 {
				run[i] = ' '
			}
		}
		pos := 0
		if len(b) > 0 {
			pos = ch.Int("workload", len(b)+1)
		}
		b = append(append(append([]byte(nil), b[:pos]...), run...), b[pos:]...)
		if ch.Chance("workload", 1, 2) {
			b = append(b, []string{"*b*", " _c_ ", "`d`\n", "~e~"}[ch.Int("workload", 4)]...)
		}
	}
	if ch.Chance("workload", 1, 400) {
		// a very long line, up to and beyond the scanner's token limit
		k := []int{4000, 65000, 65536, 70000}[ch.Int("workload", 4)]
		b = append(b, bytes.Repeat([]byte("ab *c* "), k/7)...)
		b = append(b, "\n*tail*\n"...)
	}
	return b
}

var errInjected = errors.New("harness: injected read error")

func runC17(rc *RC) {
	ch := rc.Ch
	doc := genStyDoc(rc)
	rc.Describe("doc=%q", clip(string(doc), 160))
	bound := 4*len(doc) + 16
	var ref []styTok
	var refErr error
	ok := func(what string, f func()) (fine bool) {
		defer func() {
			if r := recover(); r != nil {
				rc.Failf("C17.c1", "panic:"+what, "decoder panicked (%s) on %q: %v", what, clip(string(doc), 300), r)
				fine = false
			}
		}()
		f()
		return true
	}
	rc.Evals["C17.c1"]++
	var over bool
	if !ok("one-piece", func() { ref, refErr, over = decodeAll(bytes.NewReader(doc), bound) }) {
		return
	}
	if over {
		rc.Failf("C17.c1", "no-termination", "decoder produced more than %d tokens for a %d-byte document %q", bound, len(doc), clip(string(doc), 200))
		return
	}
	// c2: lossless
	var sb strings.Builder
	for _, t := range ref {
		sb.WriteString(t.data)
	}
	rc.Evals["C17.c2"]++
	if refErr == io.EOF {
		if sb.String() != string(doc) {
			d := 0
			for d < sb.Len() && d < len(doc) && sb.String()[d] == doc[d] {
				d++
			}
			rc.Failf("C17.c2", "lossy", "concatenated token data differs from the input at byte %d: input %q, tokens %q", d, clip(string(doc[max(0, d-20):]), 80), clip(sb.String()[max(0, min(d, sb.Len())-20):], 80))
		}
	} else {
		rc.Check("C17.c2", "lossy-prefix", strings.HasPrefix(string(doc), sb.String()), "decoder failed with %v and its tokens are not a prefix of the input", refErr)
	}
	// c4: bracket discipline on the reference sequence
	checkBrackets(rc, doc, ref)

	// c3: every chunking yields the same sequence
	mode := ch.Int("chunk", 4)
	sr := &shortReader{rc: rc, b: append([]byte(nil), doc...), max: []int{1, 2, 7, 64}[mode], errAt: -1, eofWith: ch.Chance("chunk", 1, 3)}
	expect, expectErr := ref, refErr
	if len(doc) > 0 && ch.Chance("chunk", 1, 5) {
		// read error at byte k: equivalent to the one-piece decoding of the prefix, then the error
		k := ch.Int("chunk", len(doc)+1)
		sr.errAt, sr.err = k, errInjected
		sr.b = append([]byte(nil), doc...)
		if !ok("prefix", func() { expect, _, _ = decodeAll(bytes.NewReader(doc[:k]), bound) }) {
			return
		}
		expectErr = errInjected
		if k == 0 {
			sr.errAt = 0
		}
		rc.Describe("readerr@%d", k)
	}
	rc.Describe("chunk<=%d eofwith=%v", sr.max, sr.eofWith)
	var got []styTok
	var gotErr error
	if !ok("chunked", func() { got, gotErr, over = decodeAll(sr, bound) }) {
		return
	}
	rc.Evals["C17.c3"]++
	if over {
		rc.Failf("C17.c1", "no-termination-chunked", "chunked decoding produced more than %d tokens", bound)
		return
	}
	if expectErr == errInjected && !sr.errFired {
		// the whole document was delivered before the error could fire
		expectErr = gotErr
	}
	n := len(got)
	if len(expect) < n {
		n = len(expect)
	}
	for i := 0; i < n; i++ {
		if got[i] != expect[i] {
			rc.Failf("C17.c3", "chunking-changes-tokens", "token %d differs when the input is read in pieces of <=%d bytes: got %v, one-piece %v; doc %q", i, sr.max, got[i], expect[i], clip(string(doc), 200))
			return
		}
	}
	if len(got) != len(expect) {
		rc.Failf("C17.c3", "chunking-changes-count", "chunked decoding (<=%d bytes) gives %d tokens, one-piece %d; doc %q; next %v", sr.max, len(got), len(expect), clip(string(doc), 200), func() any {
			if len(got) > n {
				return got[n]
			}
			return expect[n]
		}())
		return
	}
	if expectErr == errInjected {
		rc.Check("C17.c3", "error-not-reported", gotErr == errInjected, "read error injected but Err() = %v", gotErr)
	} else {
		rc.Check("C17.c3", "err-differs", gotErr == expectErr, "Err() = %v chunked, %v one-piece", gotErr, expectErr)
	}
}

func checkBrackets(rc *RC, doc []byte, toks []styTok) {
	type kind struct {
		bit, start, end styling.Style
		name            string
	}
	spans := []kind{
		{styling.SpanEmph, styling.SpanEmphStart, styling.SpanEmphEnd, "emph"},
		{styling.SpanStrong, styling.SpanStrongStart, styling.SpanStrongEnd, "strong"},
		{styling.SpanStrike, styling.SpanStrikeStart, styling.SpanStrikeEnd, "strike"},
		{styling.SpanPre, styling.SpanPreStart, styling.SpanPreEnd, "pre"},
	}
	blocks := []kind{
		{styling.BlockPre, styling.BlockPreStart, styling.BlockPreEnd, "blockpre"},
		{styling.BlockQuote, styling.BlockQuoteStart, styling.BlockQuoteEnd, "blockquote"},
	}
	var stack []kind
	rc.Evals["C17.c4"]++
	ctx := func(i int) string {
		lo := max(0, i-3)
		hi := min(len(toks), i+2)
		var s []string
		for _, t := range toks[lo:hi] {
			s = append(s, t.String())
		}
		return strings.Join(s, " ") + " doc=" + clip(string(doc), 160)
	}
	for i, t := range toks {
		for _, k := range append(append([]kind{}, spans...), blocks...) {
			if t.mask&(k.start|k.end) != 0 && t.mask&k.bit == 0 {
				rc.Failf("C17.c4", "directive-without-style:"+k.name, "token %d has a %s start/end directive bit without the style bit: %s", i, k.name, ctx(i))
				return
			}
		}
		inPre := len(stack) > 0 && stack[len(stack)-1].name == "pre"
		for _, k := range spans {
			if t.mask&k.start != 0 {
				if inPre {
					rc.Failf("C17.c4", "directive-inside-pre-span", "token %d starts a %s span inside a preformatted span: %s", i, k.name, ctx(i))
					return
				}
				if t.mask&styling.BlockPre != 0 && t.mask&styling.BlockPreStart == 0 {
					rc.Failf("C17.c4", "span-inside-pre-block", "token %d starts a %s span inside a preformatted block: %s", i, k.name, ctx(i))
					return
				}
				stack = append(stack, k)
			}
		}
		for _, k := range spans {
			if t.mask&k.end != 0 {
				if len(stack) == 0 || stack[len(stack)-1].name != k.name {
					top := "nothing"
					if len(stack) > 0 {
						top = stack[len(stack)-1].name
					}
					rc.Failf("C17.c4", "unmatched-end:"+k.name, "token %d ends a %s span but the innermost open span is %s: %s", i, k.name, top, ctx(i))
					return
				}
				stack = stack[:len(stack)-1]
			}
		}
		if strings.Contains(t.data, "\n") && len(stack) > 0 {
			rc.Failf("C17.c4", "span-open-at-line-end:"+stack[len(stack)-1].name, "token %d ends the line while a %s span is still open: %s", i, stack[len(stack)-1].name, ctx(i))
			return
		}
		// the style bit holds on every token between a start and its end
		for _, k := range stack {
			if t.mask&k.bit == 0 {
				rc.Failf("C17.c4", "style-bit-gap:"+k.name, "token %d lies inside an open %s span but does not carry its style bit: %s", i, k.name, ctx(i))
				return
			}
		}
	}
	if len(stack) > 0 {
		rc.Failf("C17.c4", "span-open-at-end:"+stack[len(stack)-1].name, "input ended while a %s span is still open: %s", stack[len(stack)-1].name, ctx(len(toks)-1))
	}
}
