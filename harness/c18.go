package harness

import (
	"context"
	"encoding/xml"
	"errors"
	"fmt"
	"strings"
	"time"

	"mellium.im/xmpp/jid"
	"mellium.im/xmpp/muc"
	"mellium.im/xmpp/mux"
	"mellium.im/xmpp/stanza"
	"verif.sim/simrt"
)

// C18 — MUC membership follows the room's presence exactly.

func init() { register(&Scenario{ID: "C18", Run: runC18}) }

type mucCall struct {
	kind        string // join, rejoin, leave
	room        string // occupant address
	timeout     time.Duration
	plan        int           // 0 ok, 1 error, 2 silence, 3 an error presence without a usable <error/> payload
	split       time.Duration // error answers: the presence arrives in two pieces this far apart
	delay       time.Duration // peer's answer delay
	others      int           // other occupants' presences before the self-presence
	err         error
	done        bool
	start       time.Duration
	ret         time.Duration
	retStep     int
	reqSeen     bool
	answered    string // what the peer wrote: "self", "unavail", "error", ""
	ansAt       time.Duration
	ansStep     int
	joinedAfter *bool
}

// runC18Crossing: calls that start while a presence of the same room is only half delivered - the one situation the main
// scenario avoids (there every call starts on a drained input, so that answers can be attributed). Here nothing is
// attributed; what is demanded is progress: every call returns by its deadline at the latest, a call that the room
// answers positively after the crossing succeeds, the session is still served afterwards and nothing stays blocked.
func runC18Crossing(rc *RC) {
	ch := rc.Ch
	strat := rc.S.ConfigureStrategy()
	e := rc.NewE2(E2Opts{Chunk: ch.Chance("workload", 1, 2)})
	if e == nil {
		return
	}
	invites := 0
	client := &muc.Client{HandleInvite: func(muc.Invitation) { invites++ }, HandleUserPresence: func(stanza.Presence, muc.Item) {}}
	serveT := e.Serve(mux.New(e.NS, muc.HandleClient(client)))
	room := "room0@conf.example.net/nick"
	second := ch.Int("workload", 3) // the call that crosses the half-delivered presence: 0 rejoin through the channel, 1 a fresh Join of the same address, 2 leave
	halfKind := ch.Int("workload", 3) // what is half delivered: 0 a self-presence update, 1 another occupant's presence, 2 the occupant's own removal (a kick)
	if halfKind == 2 && second == 2 {
		second = ch.Int("workload", 2) // after a removal the crossing call is a (re)join: the room admits the occupant again
	}
	gap := time.Duration(ch.Range("workload", 1, 40)) * 25 * time.Millisecond
	rc.Describe("crossing strategy=%s second=%d half=%d gap=%v", strat, second, halfKind, gap)
	rc.CaseKey = fmt.Sprint("crossing", second, halfKind)
	self := func() string {
		return fmt.Sprintf(`<presence from="%s"><x xmlns="http://jabber.org/protocol/muc#user"><item affiliation="member" role="participant"/><status code="110"/></x></presence>`, room)
	}
	halfPending := false
	// the room: answers every request it reads (join: self-presence, leave: unavailable)
	peer := rc.Spawn("peer", func() {
		d := xml.NewDecoder(e.Peer)
		depth := 0
		for {
			tok, err := d.Token()
			if err != nil {
				return
			}
			switch t := tok.(type) {
			case xml.StartElement:
				depth++
				if depth == 2 && t.Name.Local == "presence" {
					// one stanza at a time: the room finishes the presence it is in the middle of before it answers
					simrt.WaitUntil("peer:stanza-complete", func() bool { return !halfPending })
					if (Elem{Start: t}).Attr("type") == "unavailable" {
						e.PeerWrite(fmt.Sprintf(`<presence from="%s" type="unavailable"><x xmlns="http://jabber.org/protocol/muc#user"><item affiliation="member" role="none"/><status code="110"/></x></presence>`, room))
					} else {
						e.PeerWrite(self())
					}
				}
			case xml.EndElement:
				depth--
			}
		}
	})
	peer.Daemon = true
	var err1, err2 error
	done1, done2 := false, false
	var chn *muc.Channel
	app := rc.Spawn("app", func() {
		ctx, cancel := context.WithTimeout(e.Ctx, 5*time.Second)
		chn, err1 = client.Join(ctx, jid.MustParse(room), e.Sess)
		simrt.Settle(cancel, "h:cancel")
		done1 = true
		if err1 != nil || chn == nil {
			return
		}
		// the first half of a presence from the room …
		from := room
		if halfKind == 1 {
			from = "room0@conf.example.net/somebody"
		}
		halfPending = true
		if halfKind == 2 {
			e.PeerWrite(fmt.Sprintf(`<presence from="%s" type="unavailable"><x xmlns="http://jabber.org/protocol/muc#user">`, from))
			rc.Fire("removal-half-delivered")
		} else {
			e.PeerWrite(fmt.Sprintf(`<presence from="%s"><x xmlns="http://jabber.org/protocol/muc#user">`, from))
		}
		rc.Fire("presence-half-delivered")
		// … the rest of it a little later, written by somebody else
		rc.Spawn("second-half", func() {
			simrt.Sleep(gap)
			status := ""
			if halfKind == 0 {
				status = `<status code="110"/>`
			}
			if halfKind == 2 {
				e.PeerWrite(`<item affiliation="member" role="none"/><status code="110"/><status code="307"/></x></presence>`)
			} else {
				e.PeerWrite(`<item affiliation="member" role="participant"/>` + status + `</x></presence>`)
			}
			halfPending = false
		})
		// … and meanwhile the next call
		simrt.Sleep(time.Duration(ch.Range("workload", 0, 40)) * 25 * time.Millisecond)
		if halfKind == 2 {
			// the rejoin follows the removal: the session has taken in the first half (its serve loop waits for the rest), so
			// that the room reads the request after it has removed the occupant and admits it again
			simrt.WaitUntil("input-drained", func() bool { return e.ServeDone || e.SUT.ReadIdle() })
		}
		ctx2, cancel2 := context.WithTimeout(e.Ctx, 20*time.Second)
		switch second {
		case 0:
			err2 = chn.Join(ctx2)
		case 1:
			_, err2 = client.Join(ctx2, jid.MustParse(room), e.Sess)
		default:
			err2 = chn.Leave(ctx2, "bye")
		}
		simrt.Settle(cancel2, "h:cancel")
		done2 = true
	})
	st := rc.S.Run(func() bool { return app.Done() }, 200000, 2*time.Minute)
	rc.Evals["C18.c8"]++
	if !app.Done() {
		rc.Failf("C18.c8", "call-stuck-across-half-delivered-presence", "a call that started while a presence of its room was half delivered has not returned (first call done=%v err=%v, second kind %d done=%v): status %v, stuck %v", done1, err1, second, done2, st, rc.S.Stuck())
	} else if done1 && err1 == nil && done2 && err2 != nil {
		rc.Failf("C18.c8", "call-fails-across-half-delivered-presence", "the room answered, but the call (kind %d) that started while a presence of its room was half delivered returned %v", second, err2)
	}
	// the session is still served
	rc.Spawn("invite", func() {
		e.PeerWrite(`<message from="roomx@conf.example.net"><x xmlns="http://jabber.org/protocol/muc#user"><invite from="friend@example.net"/></x></message>`)
	})
	rc.S.Run(func() bool { return invites > 0 }, 20000, time.Minute)
	rc.Evals["C18.c8"]++
	if invites != 1 && serveT.Panic == nil {
		rc.Failf("C18.c8", "session-not-served-after-crossing", "an invitation sent after the calls was delivered %d times: the serve loop is stuck %v", invites, rc.S.Stuck())
	}
	rc.Spawn("peer-close", func() { e.PeerWrite(e.CloseTag()) })
	rc.S.Run(func() bool { return e.ServeDone }, 20000, time.Minute)
	stuck := rc.Teardown()
	rc.CheckPanics("C18.c8")
	rc.Check("C18.c8", "stuck-after-teardown", len(stuck) == 0, "tasks still blocked after teardown: %v", stuck)
}

// runC18Overlap: two or three goroutines of the application use one Channel at the same time: overlapping Join calls
// (and a Leave at the end). The room answers every request it reads, so every call must come back with the room's
// answer; the calls' contexts live much longer than the room takes.
func runC18Overlap(rc *RC) {
	ch := rc.Ch
	strat := rc.S.ConfigureStrategy()
	e := rc.NewE2(E2Opts{Chunk: ch.Chance("workload", 1, 2)})
	if e == nil {
		return
	}
	invites := 0
	client := &muc.Client{HandleInvite: func(muc.Invitation) { invites++ }, HandleUserPresence: func(stanza.Presence, muc.Item) {}}
	serveT := e.Serve(mux.New(e.NS, muc.HandleClient(client)))
	room := "room0@conf.example.net/nick"
	n := 2 + ch.Int("workload", 2)
	answerDelay := []time.Duration{0, 0, 5 * time.Millisecond, 60 * time.Millisecond, 400 * time.Millisecond}[ch.Int("workload", 5)]
	leaveFirst := ch.Chance("workload", 1, 2)
	rc.Describe("overlap strategy=%s callers=%d answer-delay=%v leave-first=%v", strat, n, answerDelay, leaveFirst)
	rc.CaseKey = fmt.Sprint("overlap", n, leaveFirst)
	answers := 0
	peer := rc.Spawn("peer", func() {
		d := xml.NewDecoder(e.Peer)
		depth := 0
		for {
			tok, err := d.Token()
			if err != nil {
				return
			}
			switch t := tok.(type) {
			case xml.StartElement:
				depth++
				if depth == 2 && t.Name.Local == "presence" {
					if answerDelay > 0 {
						simrt.Sleep(answerDelay)
					}
					if (Elem{Start: t}).Attr("type") == "unavailable" {
						e.PeerWrite(fmt.Sprintf(`<presence from="%s" type="unavailable"><x xmlns="http://jabber.org/protocol/muc#user"><item affiliation="member" role="none"/><status code="110"/></x></presence>`, room))
					} else {
						e.PeerWrite(fmt.Sprintf(`<presence from="%s"><x xmlns="http://jabber.org/protocol/muc#user"><item affiliation="member" role="participant"/><status code="110"/></x></presence>`, room))
					}
					answers++
				}
			case xml.EndElement:
				depth--
			}
		}
	})
	peer.Daemon = true
	var chn *muc.Channel
	var err0 error
	first := rc.Spawn("app", func() {
		ctx, cancel := context.WithTimeout(e.Ctx, 20*time.Second)
		chn, err0 = client.Join(ctx, jid.MustParse(room), e.Sess)
		if err0 == nil && leaveFirst {
			err0 = chn.Leave(ctx, "brb")
		}
		simrt.Settle(cancel, "h:cancel")
	})
	rc.S.Run(func() bool { return first.Done() }, 200000, time.Minute)
	if !first.Done() || err0 != nil || chn == nil {
		rc.Check("C18.c8", "first-join-failed:overlap", false, "the first join (and leave) of the overlap scenario did not succeed: done=%v err=%v stuck %v", first.Done(), err0, rc.S.Stuck())
		rc.Teardown()
		return
	}
	// the session has taken in everything so far
	rc.S.Run(func() bool { return strings.HasPrefix(serveT.Site, "read:") }, 20000, time.Second)
	errs := make([]error, n)
	done := make([]bool, n)
	// in a third of the runs some callers are impatient: they give up after a fraction of a second - while they wait for
	// their turn behind another call, or for the room, which takes its time then. Giving up is their right (they get their
	// context's error); the patient ones still get the room's answer.
	impatient := make([]bool, n)
	if ch.Chance("workload", 1, 3) {
		for i := 1; i < n; i++ {
			impatient[i] = ch.Chance("workload", 2, 3)
		}
		if ch.Chance("workload", 1, 2) {
			impatient[0], impatient[1] = impatient[1], impatient[0]
		}
		answerDelay = []time.Duration{400 * time.Millisecond, time.Second, 2 * time.Second}[ch.Int("workload", 3)]
		rc.Fire("impatient-callers")
		rc.Describe("impatient=%v answer-delay=%v", impatient, answerDelay)
	}
	var tasks []*simrt.Task
	for i := 0; i < n; i++ {
		i := i
		off := time.Duration(ch.Range("workload", 0, 12)) * 5 * time.Millisecond
		patience := 30 * time.Second
		if impatient[i] {
			patience = time.Duration(ch.Range("workload", 1, 60)) * 10 * time.Millisecond
		}
		tasks = append(tasks, rc.Spawn(fmt.Sprintf("caller%d", i), func() {
			simrt.Sleep(off)
			ctx, cancel := context.WithTimeout(e.Ctx, patience)
			errs[i] = chn.Join(ctx)
			if impatient[i] && errs[i] != nil && errors.Is(errs[i], ctx.Err()) {
				errs[i] = nil // gave up, as announced
			}
			simrt.Settle(cancel, "h:cancel")
			done[i] = true
		}))
	}
	rc.Fire("overlapping-joins")
	st := rc.S.Run(func() bool {
		for _, t := range tasks {
			if !t.Done() {
				return false
			}
		}
		return true
	}, 400000, 3*time.Minute)
	rc.Evals["C18.c1"]++
	for i := range tasks {
		if !done[i] {
			rc.Failf("C18.c8", "overlapping-join-stuck", "caller %d of %d overlapping Join calls on one Channel has not returned: status %v, stuck %v", i, n, st, rc.S.Stuck())
		} else if errs[i] != nil {
			rc.Failf("C18.c3", "overlapping-join-fails", "caller %d of %d overlapping Join calls on one Channel returned %v although the room answered every request it got (%d answers) well within the call's 30 s", i, n, errs[i], answers)
		}
	}
	rc.Spawn("invite", func() {
		e.PeerWrite(`<message from="roomx@conf.example.net"><x xmlns="http://jabber.org/protocol/muc#user"><invite from="friend@example.net"/></x></message>`)
	})
	rc.S.Run(func() bool { return invites > 0 }, 20000, time.Minute)
	rc.Evals["C18.c8"]++
	if invites != 1 && serveT.Panic == nil {
		rc.Failf("C18.c8", "session-not-served-after-overlap", "an invitation sent after the calls was delivered %d times: the serve loop is stuck %v", invites, rc.S.Stuck())
	}
	rc.Spawn("peer-close", func() { e.PeerWrite(e.CloseTag()) })
	rc.S.Run(func() bool { return e.ServeDone }, 20000, time.Minute)
	stuck := rc.Teardown()
	rc.CheckPanics("C18.c8")
	rc.Check("C18.c8", "stuck-after-teardown", len(stuck) == 0, "tasks still blocked after teardown: %v", stuck)
}

// runC18Reconnect: one muc.Client, two sessions one after the other (the connection is lost and the application
// connects again): the occupant joins on the first session, the session goes away without the room's farewell having
// been seen, and the application joins the same occupant address again on the new session. The request must go out on
// the session the call names, and the call ends with what the room answers there.
func runC18Reconnect(rc *RC) {
	ch := rc.Ch
	strat := rc.S.ConfigureStrategy()
	client := &muc.Client{HandleInvite: func(muc.Invitation) {}, HandleUserPresence: func(stanza.Presence, muc.Item) {}}
	room := "room0@conf.example.net/nick"
	if ch.Chance("workload", 1, 3) {
		room = "room0@conf.example.net"
	}
	firstPlan := ch.Int("workload", 3) // the join on the first session: 0 admitted, 1 refused, 2 no answer (the caller gives up)
	lost := ch.Int("workload", 2)      // how the first session ends: 0 the peer closes the stream, 1 the connection breaks
	rc.Describe("reconnect strategy=%s room=%s first=%d lost=%d", strat, room, firstPlan, lost)
	rc.CaseKey = fmt.Sprint("reconnect", firstPlan, lost)
	type sess struct {
		e       *E2
		serve   *simrt.Task
		answers int
	}
	open := func(plan int) *sess {
		e := rc.NewE2(E2Opts{Chunk: ch.Chance("workload", 1, 2)})
		if e == nil {
			return nil
		}
		x := &sess{e: e}
		x.serve = e.Serve(mux.New(e.NS, muc.HandleClient(client)))
		peer := rc.Spawn("room", func() {
			d := xml.NewDecoder(e.Peer)
			depth := 0
			for {
				tok, err := d.Token()
				if err != nil {
					return
				}
				switch t := tok.(type) {
				case xml.StartElement:
					depth++
					if depth == 2 && t.Name.Local == "presence" {
						to := (Elem{Start: t}).Attr("to")
						switch plan {
						case 0:
							e.PeerWrite(fmt.Sprintf(`<presence from="%s"><x xmlns="http://jabber.org/protocol/muc#user"><item affiliation="member" role="participant"/><status code="110"/></x></presence>`, escText(to)))
						case 1:
							e.PeerWrite(fmt.Sprintf(`<presence from="%s" type="error"><error type="auth"><registration-required xmlns="urn:ietf:params:xml:ns:xmpp-stanzas"/></error></presence>`, escText(to)))
						}
						x.answers++
					}
				case xml.EndElement:
					depth--
				}
			}
		})
		peer.Daemon = true
		return x
	}
	a := open(firstPlan)
	if a == nil {
		return
	}
	var errA error
	t1 := rc.Spawn("app-first", func() {
		ctx, cancel := context.WithTimeout(a.e.Ctx, 2*time.Second)
		_, errA = client.Join(ctx, jid.MustParse(room), a.e.Sess)
		simrt.Settle(cancel, "h:cancel")
	})
	rc.S.Run(func() bool { return t1.Done() }, 200000, time.Minute)
	// the first session goes away
	if lost == 0 {
		rc.Spawn("peer-close", func() { a.e.PeerWrite(a.e.CloseTag()) })
	} else {
		rc.Spawn("peer-break", func() { a.e.Peer.Close() })
	}
	rc.S.Run(func() bool { return a.e.ServeDone }, 50000, time.Minute)
	rc.Fire("session-lost-then-rejoin")
	// … and the application connects again
	b := open(0)
	if b == nil {
		return
	}
	var errB error
	t2 := rc.Spawn("app-second", func() {
		ctx, cancel := context.WithTimeout(b.e.Ctx, 20*time.Second)
		_, errB = client.Join(ctx, jid.MustParse(room), b.e.Sess)
		simrt.Settle(cancel, "h:cancel")
	})
	st := rc.S.Run(func() bool { return t2.Done() }, 200000, time.Minute)
	rc.Evals["C18.c1"]++
	switch {
	case !t2.Done():
		rc.Failf("C18.c8", "join-on-new-session-stuck", "the join on the second session has not returned: status %v, stuck %v", st, rc.S.Stuck())
	case errB != nil:
		rc.Failf("C18.c3", "join-on-new-session-fails", "after the first session was lost (its join: %v) the same occupant address was joined on a new session; the room there got %d request(s) and answers each with the self-presence, but the call returned %v (first session's room saw %d)", errA, b.answers, errB, a.answers)
	case b.answers == 0:
		rc.Failf("C18.c1", "join-nil-without-request-on-its-session", "the join on the second session returned nil but no request had reached that session's room")
	}
	rc.Spawn("peer-close", func() { b.e.PeerWrite(b.e.CloseTag()) })
	rc.S.Run(func() bool { return b.e.ServeDone }, 20000, time.Minute)
	stuck := rc.Teardown()
	rc.CheckPanics("C18.c8")
	rc.Check("C18.c8", "stuck-after-teardown", len(stuck) == 0, "tasks still blocked after teardown: %v", stuck)
}

func runC18(rc *RC) {
	ch := rc.Ch
	if ch.Chance("workload", 1, 8) {
		runC18Crossing(rc)
		return
	}
	if ch.Chance("workload", 1, 10) {
		runC18Reconnect(rc)
		return
	}
	if ch.Chance("workload", 1, 8) {
		runC18Overlap(rc)
		return
	}
	strat := rc.S.ConfigureStrategy()
	e := rc.NewE2(E2Opts{Chunk: ch.Chance("workload", 1, 2)})
	if e == nil {
		return
	}
	type cb struct{ from, kind string }
	var callbacks []cb
	invites := map[string]int{}
	wantInv := map[string]int{}
	client := &muc.Client{
		HandleInvite: func(i muc.Invitation) { invites[i.Reason+"|"+i.Password+"|"+i.Thread]++ },
		HandleUserPresence: func(p stanza.Presence, it muc.Item) {
			callbacks = append(callbacks, cb{p.From.String(), string(p.Type)})
		},
	}
	e.Serve(mux.New(e.NS, muc.HandleClient(client)))
	nRooms := ch.Range("workload", 1, 2)
	withNick := ch.Chance("workload", 2, 3)
	var plans [][]*mucCall
	for r := 0; r < nRooms; r++ {
		addr := fmt.Sprintf("room%d@conf.example.net", r)
		if withNick {
			addr += "/nick" + fmt.Sprint(r)
			if ch.Chance("workload", 1, 4) {
				// nicknames are resourceparts: spaces, characters that need escaping, non-ASCII text
				addr += []string{` the 2nd`, `&co`, `<b>`, `"q'`, "ü€", `/x`}[ch.Int("workload", 6)]
			}
		}
		seq := [][]string{{"join"}, {"join", "leave"}, {"join", "leave", "rejoin"}, {"join", "leave", "rejoin", "leave"}, {"join", "rejoin"},
			// the room removes the occupant on its own (kick, ban, room destroyed) while no call is in flight
			{"join", "kick", "rejoin", "leave"}, {"join", "kick", "rejoin"}, {"join", "leave", "rejoin", "kick", "rejoin", "leave"}}[ch.Int("workload", 8)]
		var pl []*mucCall
		for _, k := range seq {
			c := &mucCall{kind: k, room: addr, timeout: []time.Duration{300 * time.Millisecond, 2 * time.Second, 5 * time.Second}[ch.Int("workload", 3)],
				plan: []int{0, 0, 0, 1, 2, 0, 1, 3}[ch.Int("workload", 8)], split: []time.Duration{0, 0, 10 * time.Millisecond, 400 * time.Millisecond, 6 * time.Second}[ch.Int("workload", 5)], delay: []time.Duration{0, 0, 20 * time.Millisecond, 400 * time.Millisecond, 3 * time.Second}[ch.Int("workload", 5)], others: ch.Int("workload", 3)}
			pl = append(pl, c)
		}
		plans = append(plans, pl)
	}
	// long-lived contexts: the application passes a context that stays alive after the call returned
	keepCtx := ch.Chance("workload", 1, 3)
	nInv := ch.Int("workload", 3)
	nStray := ch.Int("workload", 3)
	invIDMode := ch.Int("workload", 4)
	rc.Describe("strategy=%s rooms=%d nick=%v invites=%d stray=%d keepctx=%v", strat, nRooms, withNick, nInv, nStray, keepCtx)
	for _, pl := range plans {
		for _, c := range pl {
			rc.Describe("%s %s timeout=%v plan=%d delay=%v others=%d split=%v", c.kind, c.room, c.timeout, c.plan, c.delay, c.others, c.split)
		}
	}
	rc.CaseKey = fmt.Sprint(nRooms, withNick)
	// one writer at a time on the peer's side: an element that is sent in pieces is not interleaved with others
	peerBusy := false
	acquire := func() {
		simrt.WaitUntil("peer-free", func() bool { return !peerBusy })
		peerBusy = true
	}
	release := func() { peerBusy = false }
	pw := func(s string) {
		acquire()
		e.PeerWrite(s)
		release()
	}
	// pending[room] = the call the room service will answer next
	pending := map[string]*mucCall{}
	type roomAns struct {
		kind string
		step int
		at   time.Duration
		for_ *mucCall
	}
	answers := map[string][]roomAns{}
	var tasks []*simrt.Task
	for i, pl := range plans {
		pl := pl
		tasks = append(tasks, rc.Spawn(fmt.Sprintf("user%d", i), func() {
			var chn *muc.Channel
			for _, c := range pl {
				// a call starts when the session has consumed everything the server has sent so far: the oracle tells the
				// presences that can answer a call from older ones by the instant they were written, and an element still in
				// flight when the call starts (sent before it, handled after it) would be taken for an older one
				simrt.WaitUntil("input-drained", func() bool { return e.ServeDone || (!peerBusy && e.SUT.ReadIdle()) })
				ctx, cancel := context.WithTimeout(e.Ctx, c.timeout)
				if keepCtx {
					if c.plan == 2 {
						c.plan = 0 // a silent room would make the call wait for the whole lifetime of the context
					}
					c.timeout = 10 * time.Minute
					ctx, cancel = context.WithTimeout(e.Ctx, c.timeout)
					rc.OnCleanup(cancel)
					cancel = func() {}
				}
				if c.kind == "kick" {
					cancel()
					if chn == nil {
						continue
					}
					acquire()
					answers[c.room] = append(answers[c.room], roomAns{"kick", rc.S.Steps, rc.S.Now(), c})
					e.PeerWrite(fmt.Sprintf(`<presence from="%s" type="unavailable"><x xmlns="http://jabber.org/protocol/muc#user"><item affiliation="none" role="none"><reason>bye</reason></item><status code="110"/><status code="307"/></x></presence>`, escText(c.room)))
					release()
					rc.Fire("kick")
					simrt.Sleep(time.Duration(ch.Range("workload", 1, 30)) * 10 * time.Millisecond)
					c.done, c.ret, c.retStep = true, rc.S.Now(), rc.S.Steps
					continue
				}
				pending[c.room] = c
				c.start = rc.S.Now()
				switch c.kind {
				case "join":
					chn, c.err = client.Join(ctx, jid.MustParse(c.room), e.Sess)
				case "rejoin":
					if chn == nil {
						cancel()
						continue
					}
					c.err = chn.Join(ctx)
				case "leave":
					if chn == nil {
						cancel()
						continue
					}
					c.err = chn.Leave(ctx, "bye")
				}
				c.done, c.ret, c.retStep = true, rc.S.Now(), rc.S.Steps
				simrt.Settle(cancel, "h:cancel")
				if chn != nil {
					j := chn.Joined()
					c.joinedAfter = &j
				}
				if c.err != nil && c.kind == "join" {
					var se stanza.Error
					if chn == nil || errors.As(c.err, &se) {
						return // refused by the room (or no channel to go on with): the sequence ends here
					}
					// a join that gave up: the application may try again through the channel it was handed
				}
			}
		}))
	}
	// scripted room service
	// what occupants' clients add to their presence and rooms reflect: other payloads before or after the muc#user one
	extras := func() (pre, post string) {
		pool := []string{`<x xmlns="vcard-temp:x:update"><photo>abc</photo></x>`, `<priority>1</priority>`, `<c xmlns="http://jabber.org/protocol/caps" hash="sha-1" node="n" ver="v"/>`, `<x xmlns="urn:verif:other"/>`}
		if ch.Chance("workload", 1, 3) {
			pre = pool[ch.Int("workload", len(pool))]
		}
		if ch.Chance("workload", 1, 3) {
			post = pool[ch.Int("workload", len(pool))]
		}
		return
	}
	peer := rc.Spawn("peer", func() {
		d := xml.NewDecoder(e.Peer)
		depth := 0
		for {
			tok, err := d.Token()
			if err != nil {
				return
			}
			switch t := tok.(type) {
			case xml.StartElement:
				depth++
				if depth != 2 || t.Name.Local != "presence" {
					continue
				}
				el := Elem{Start: t}
				to, id, typ := el.Attr("to"), el.Attr("id"), el.Attr("type")
				c := pending[to]
				if c == nil || c.reqSeen {
					continue
				}
				if (c.kind == "leave") != (typ == "unavailable") {
					// the request of an earlier call that returned before its request was read (a join satisfied by the late
					// answer to the join before it): it is not the pending call's request, and its id is not that call's id
					continue
				}
				c.reqSeen = true
				rc.Spawn("room-answer", func() {
					if c.delay > 0 {
						simrt.Sleep(c.delay)
					}
					bare := strings.SplitN(to, "/", 2)[0]
					if c.plan == 2 {
						rc.Fire("peer-drop")
						return
					}
					acquire()
					defer release()
					switch c.plan {
					case 0:
						if typ == "unavailable" {
							c.ansAt, c.ansStep = rc.S.Now(), rc.S.Steps
							answers[to] = append(answers[to], roomAns{"unavail", rc.S.Steps, rc.S.Now(), c})
							pre, post := extras()
							// the occupant leaves as what it was in the room - or as an outcast, when a ban crossed the request
							item := []string{`<item affiliation="member" role="none"/>`, `<item affiliation="none" role="none"/>`, `<item affiliation="owner" role="none"/>`, `<item affiliation="admin" role="none"/>`,
								`<item affiliation="outcast" role="none"><reason>banned</reason></item><status code="301"/>`}[ch.Int("workload", 5)]
							e.PeerWrite(fmt.Sprintf(`<presence from="%s" type="unavailable">%s<x xmlns="http://jabber.org/protocol/muc#user">%s<status code="110"/></x>%s</presence>`, escText(to), pre, item, post))
							c.answered = "unavail"
						} else {
							for k := 0; k < c.others; k++ {
								e.PeerWrite(fmt.Sprintf(`<presence from="%s/other%d"><x xmlns="http://jabber.org/protocol/muc#user"><item affiliation="member" role="participant"/></x></presence>`, escText(bare), k))
							}
							c.ansAt, c.ansStep = rc.S.Now(), rc.S.Steps
							answers[to] = append(answers[to], roomAns{"self", rc.S.Steps, rc.S.Now(), c})
							pre, post := extras()
							item := []string{`<item affiliation="member" role="participant"/>`, `<item affiliation="none" role="visitor"/>`, `<item affiliation="owner" role="moderator"/>`, `<item affiliation="admin" role="moderator" jid="me@example.net/sut"/>`}[ch.Int("workload", 4)]
							if c.split > 0 {
								// the self-presence arrives in two pieces: the call may only succeed on the whole of it
								e.PeerWrite(fmt.Sprintf(`<presence from="%s">%s<x xmlns="http://jabber.org/protocol/muc#user">`, escText(to), pre))
								simrt.Sleep(c.split)
								rc.Fire("self-presence-in-pieces")
								c.ansAt, c.ansStep = rc.S.Now(), rc.S.Steps
								answers[to][len(answers[to])-1].at, answers[to][len(answers[to])-1].step = rc.S.Now(), rc.S.Steps
								e.PeerWrite(fmt.Sprintf(`%s<status code="110"/></x>%s</presence>`, item, post))
							} else {
								e.PeerWrite(fmt.Sprintf(`<presence from="%s">%s<x xmlns="http://jabber.org/protocol/muc#user">%s<status code="110"/></x>%s</presence>`, escText(to), pre, item, post))
							}
							c.answered = "self"
						}
					case 1:
						if c.split > 0 {
							// the caller may give up while the serve loop is in the middle of handing the reply over
							e.PeerWrite(fmt.Sprintf(`<presence from="%s" id="%s" type="error"><error type="auth">`, escText(to), escText(id)))
							simrt.Sleep(c.split)
							rc.Fire("error-reply-in-pieces")
						}
						c.ansAt, c.ansStep = rc.S.Now(), rc.S.Steps
						answers[to] = append(answers[to], roomAns{"error", rc.S.Steps, rc.S.Now(), c})
						if c.split > 0 {
							e.PeerWrite(`<forbidden xmlns="urn:ietf:params:xml:ns:xmpp-stanzas"/></error></presence>`)
						} else {
							e.PeerWrite(fmt.Sprintf(`<presence from="%s" id="%s" type="error"><error type="auth"><forbidden xmlns="urn:ietf:params:xml:ns:xmpp-stanzas"/></error></presence>`, escText(to), escText(id)))
						}
						c.answered = "error"
					case 3:
						// an error presence that carries no usable <error/> payload: still the answer to the request
						c.ansAt, c.ansStep = rc.S.Now(), rc.S.Steps
						answers[to] = append(answers[to], roomAns{"error", rc.S.Steps, rc.S.Now(), c})
						body := []string{``, `<x xmlns="http://jabber.org/protocol/muc"/>`, `refused`, `<error/>`}[ch.Int("workload", 4)]
						if body == "" {
							e.PeerWrite(fmt.Sprintf(`<presence from="%s" id="%s" type="error"/>`, escText(to), escText(id)))
						} else {
							e.PeerWrite(fmt.Sprintf(`<presence from="%s" id="%s" type="error">%s</presence>`, escText(to), escText(id), body))
						}
						rc.Fire("error-reply-without-payload")
						c.answered = "error-odd"
					}
				})
			case xml.EndElement:
				depth--
			}
		}
	})
	peer.Daemon = true
	noiseT := rc.Spawn("noise", func() {
		for i := 0; i < nStray; i++ {
			simrt.Sleep(time.Duration(ch.Range("workload", 0, 30)) * 10 * time.Millisecond)
			// well-formed XML whose muc#user payload may not decode: it comes from a room that was never joined and is not ours to judge
			strayItem := []string{
				`<item affiliation="none" role="participant"/>`,
				`<item affiliation="founder" role="participant"/>`,
				`<item affiliation="none" role="lurker"/>`,
				`<item affiliation="none" role="participant" jid="@@not a jid@@"/>`,
				`<item affiliation="none" role="participant"/><status code="many"/>`,
			}[ch.Int("workload", 5)]
			pw(fmt.Sprintf(`<presence from="never%d@conf.example.net/x"><x xmlns="http://jabber.org/protocol/muc#user">%s</x></presence>`, i, strayItem))
			if ch.Chance("workload", 1, 2) {
				pw(fmt.Sprintf(`<presence from="never%d@conf.example.net/x" type="unavailable"><x xmlns="http://jabber.org/protocol/muc#user"><item affiliation="none" role="none"/></x></presence>`, i))
			}
		}
		for i := 0; i < nInv; i++ {
			simrt.Sleep(time.Duration(ch.Range("workload", 0, 30)) * 10 * time.Millisecond)
			// the forms a room may relay (XEP-0045 7.8.2): with or without reason, password, continuation; nothing but the sender
			var body, key string
			switch ch.Int("workload", 5) {
			case 0:
				body, key = fmt.Sprintf(`<invite from="friend@example.net"><reason>inv%d</reason></invite>`, i), fmt.Sprintf("inv%d||", i)
			case 1:
				body, key = `<invite from="friend@example.net"/>`, "||"
			case 2:
				body, key = fmt.Sprintf(`<invite from="friend@example.net"/><password>pw%d</password>`, i), fmt.Sprintf("|pw%d|", i)
			case 3:
				body, key = fmt.Sprintf(`<invite from="friend@example.net"><continue thread="th%d"/></invite>`, i), fmt.Sprintf("||th%d", i)
			default:
				body, key = fmt.Sprintf(`<invite from="friend@example.net" to="me@example.net"><reason>inv%d</reason></invite><password>pw%d</password>`, i, i), fmt.Sprintf("inv%d|pw%d|", i, i)
			}
			wantInv[key]++
			// rooms add the legacy direct-invitation element for old clients; other payloads may ride along too
			pre, post := "", ""
			switch ch.Int("workload", 4) {
			case 0:
				post = fmt.Sprintf(`<x xmlns="jabber:x:conference" jid="roomx%d@conf.example.net"/>`, i)
			case 1:
				pre = `<x xmlns="urn:verif:other"/>`
			}
			// stanza ids are chosen by the sender: none, one per message, or every room numbering its stanzas from 1
			idAttr := []string{"", fmt.Sprintf(` id="m%d"`, i), ` id="1"`, ` id="1"`}[invIDMode]
			pw(fmt.Sprintf(`<message from="roomx%d@conf.example.net"%s>%s<x xmlns="http://jabber.org/protocol/muc#user">%s</x>%s</message>`, i, idAttr, pre, body, post))
			rc.Fire("invite")
		}
		pw(`<message from="someone@example.net" type="chat"><body>unrelated</body></message>`)
	})
	allDone := func() bool {
		for _, t := range tasks {
			if !t.Done() {
				return false
			}
		}
		return true
	}
	st := rc.S.Run(allDone, 200000, 5*time.Minute)
	rc.S.PausePerm = 0
	// let the noise be written to the end (it waits its turn behind answers that come in pieces seconds apart) and let late
	// answers and noise be handled: the oracle counts what was written
	rc.S.Run(func() bool { return noiseT.Done() }, 200000, 2*time.Minute)
	rc.S.Run(nil, 3000, 5*time.Second)
	rc.S.Run(func() bool { return e.ServeDone || (!peerBusy && e.SUT.ReadIdle()) }, 100000, time.Minute)
	// afterwards the rooms send an ordinary presence update for every occupant address that was used (role change, status)
	cbBefore := len(callbacks)
	upd := rc.Spawn("room-updates", func() {
		for _, pl := range plans {
			pw(fmt.Sprintf(`<presence from="%s"><x xmlns="http://jabber.org/protocol/muc#user"><item affiliation="member" role="moderator"/></x></presence>`, escText(pl[0].room)))
		}
	})
	rc.S.Run(func() bool { return upd.Done() }, 3000, 5*time.Second)
	rc.S.Run(nil, 3000, 5*time.Second)
	// ---- oracle ----
	slack := 700 * time.Millisecond
	startStep := map[*mucCall]int{}
	for _, pl := range plans {
		prev := 0
		for _, c := range pl {
			startStep[c] = prev
			if c.done {
				prev = c.retStep
			}
		}
	}
	// sentBetween: did the room write an answer of this kind for the occupant in (from, to] (scheduler steps)?
	sentBetween := func(room, kind string, from, to int) bool {
		for _, a := range answers[room] {
			if a.kind == kind && a.step > from && a.step <= to {
				return true
			}
		}
		return false
	}
	// crossed: the room's answer to an earlier call of this occupant was written only after
	// that call had given up, and before call c returned (the history contains a late answer)
	crossed := func(c *mucCall) bool {
		for _, a := range answers[c.room] {
			if a.for_ != c && a.for_.done && a.step > a.for_.retStep && a.step <= c.retStep {
				return true
			}
		}
		return false
	}
	// lateBefore: before call c started, the room wrote an unavailable presence answering an earlier leave of this occupant
	// only after that leave had returned (a late answer)
	lateBefore := func(c *mucCall) bool {
		for _, a := range answers[c.room] {
			if a.kind == "unavail" && a.for_ != c && a.for_.done && a.step > a.for_.retStep && a.step <= startStep[c] {
				return true
			}
		}
		return false
	}
	for _, pl := range plans {
		for _, c := range pl {
			if c.start == 0 && !c.done && !c.reqSeen {
				continue // not reached
			}
			sig := c.kind
			if !c.done {
				rc.Failf("C18.c3", "call-never-returned:"+sig, "%s %s (timeout %v) has not returned: status %v stuck %v", c.kind, c.room, c.timeout, st, rc.S.Stuck())
				continue
			}
			deadline := c.start + c.timeout
			var se stanza.Error
			isStanzaErr := errors.As(c.err, &se)
			isCtxErr := errors.Is(c.err, context.DeadlineExceeded) || errors.Is(c.err, context.Canceled)
			switch c.kind {
			case "join", "rejoin":
				rc.Evals["C18.c1"]++
				switch {
				case c.err == nil:
					if !sentBetween(c.room, "self", startStep[c], c.retStep) {
						rc.Failf("C18.c1", "join-nil-without-self-presence:"+sig, "%s %s returned nil at step %d but the room had not sent a self-presence for that occupant since the call started (answers %v)", c.kind, c.room, c.retStep, answers[c.room])
					}
					rc.Evals["C18.c4"]++
					if c.joinedAfter != nil && !*c.joinedAfter {
						rc.Failf("C18.c4", "joined-false-after-join", "Joined() is false right after %s %s succeeded", c.kind, c.room)
					}
				case isStanzaErr:
					rc.Check("C18.c2", "join-error-not-from-room:"+sig, strings.HasPrefix(c.answered, "error") && c.ansStep <= c.retStep, "%s %s returned stanza error %v but the room had not answered with an error (answer %q)", c.kind, c.room, c.err, c.answered)
				default:
					// context error: legitimate only if nothing usable arrived comfortably before the deadline
					rc.Evals["C18.c3"]++
					if c.answered == "self" && c.ansAt+slack < deadline && crossed(c) {
						rc.Failf("C18.c1", "join-misses-self-presence:"+sig+":crossed-by-late-answer", "%s %s returned %v although the room's self-presence was sent at %v, well before the deadline %v; the answer to an earlier, timed-out call on this room arrived while this call was in flight", c.kind, c.room, c.err, c.ansAt, deadline)
					} else if c.answered == "self" && c.ansAt+slack < deadline {
						rc.Failf("C18.c1", "join-misses-self-presence:"+sig, "%s %s returned %v although the room's self-presence was sent at %v, well before the deadline %v", c.kind, c.room, c.err, c.ansAt, deadline)
					}
					if (c.answered == "error" || (c.answered == "error-odd" && isCtxErr)) && c.ansAt+slack < deadline {
						rc.Failf("C18.c2", "join-misses-error:"+sig, "%s %s returned %v although the room answered with an error at %v, well before the deadline %v", c.kind, c.room, c.err, c.ansAt, deadline)
					}
				}
			case "leave":
				rc.Evals["C18.c5"]++
				switch {
				case c.err == nil:
					if !sentBetween(c.room, "unavail", startStep[c], c.retStep) && sentBetween(c.room, "unavail", 0, c.retStep) && lateBefore(c) {
						// the unavailable presence it returned on is the late answer to an earlier Leave that had given up, which
						// arrived while another call on this room was in flight: same root cause as the crossed rejoin (no
						// correlation between requests and the room's presences)
						rc.Failf("C18.c5", "leave-nil-without-unavailable:crossed-by-late-answer", "leave %s returned nil at step %d on the late answer to an earlier leave that had given up; the room had not answered this request yet: answers %v", c.room, c.retStep, answers[c.room])
					} else if !sentBetween(c.room, "unavail", startStep[c], c.retStep) {
						rc.Failf("C18.c5", "leave-nil-without-unavailable", "leave %s returned nil at step %d but the room had not sent an unavailable presence for that occupant since the previous call on this room returned (step %d): answers %v", c.room, c.retStep, startStep[c], answers[c.room])
					}
					rc.Evals["C18.c4"]++
					if c.joinedAfter != nil && *c.joinedAfter {
						rc.Failf("C18.c4", "joined-true-after-leave", "Joined() is still true after leave %s succeeded", c.room)
					}
				case isStanzaErr:
					rc.Check("C18.c5", "leave-error-not-from-room", strings.HasPrefix(c.answered, "error") && c.ansStep <= c.retStep, "leave %s returned stanza error %v but the room had not answered with an error (answer %q)", c.room, c.err, c.answered)
				default:
					if c.answered == "unavail" && c.ansAt+slack < deadline && crossed(c) {
						rc.Failf("C18.c5", "leave-misses-unavailable:crossed-by-late-answer", "leave %s returned %v although the room's unavailable presence was sent at %v, well before the deadline %v; the answer to an earlier, timed-out call on this room arrived while this call was in flight", c.room, c.err, c.ansAt, deadline)
					} else if c.answered == "unavail" && c.ansAt+slack < deadline {
						rc.Failf("C18.c5", "leave-misses-unavailable", "leave %s returned %v although the room's unavailable presence was sent at %v, well before the deadline %v", c.room, c.err, c.ansAt, deadline)
					}
					if (c.answered == "error" || (c.answered == "error-odd" && isCtxErr)) && c.ansAt+slack < deadline {
						rc.Failf("C18.c5", "leave-misses-error", "leave %s returned %v although the room answered with an error at %v, well before the deadline %v", c.room, c.err, c.ansAt, deadline)
					}
				}
			}
		}
	}
	// c9: an occupant address whose last call was a join that gave up is still managed (the room may have let us in); the
	// room's later presence for it is nobody's answer and goes to the application's presence callback
	for _, pl := range plans {
		last := pl[len(pl)-1]
		allDone := true
		for _, c := range pl {
			allDone = allDone && c.done
		}
		var se stanza.Error
		if !allDone || (last.kind != "join" && last.kind != "rejoin") || last.err == nil || errors.As(last.err, &se) {
			continue
		}
		unavailSince := false
		for _, a := range answers[last.room] {
			if a.kind == "unavail" && a.step > startStep[last] {
				unavailSince = true
			}
		}
		if unavailSince {
			continue
		}
		rc.Evals["C18.c9"]++
		got := false
		for _, c := range callbacks[cbBefore:] {
			got = got || c.from == last.room
		}
		rc.Check("C18.c9", "presence-after-abandoned-join-dropped", got, "%s %s gave up (%v); the room's later presence for that occupant reached neither a caller nor HandleUserPresence (callbacks since: %v)", last.kind, last.room, last.err, callbacks[cbBefore:])
	}
	// c6: presences for rooms that were never joined cause no callback
	rc.Evals["C18.c6"]++
	for _, c := range callbacks {
		if strings.HasPrefix(c.from, "never") {
			rc.Failf("C18.c6", "callback-for-unjoined-room", "HandleUserPresence was called for %s (%s), a room that was never joined", c.from, c.kind)
		}
	}
	rc.Check("C18.c6", "session-ended-early", !e.ServeDone, "Serve returned %v while only presences of never-joined rooms, invitations and answers to our own calls were received", e.ServeErr)
	// c7: each invitation reaches the callback exactly once
	for _, key := range sortedKeys(wantInv) {
		want := wantInv[key]
		rc.Evals["C18.c7"]++
		if n := invites[key]; n != want {
			form := "with-content"
			if key == "||" {
				form = "bare"
			}
			rc.Failf("C18.c7", fmt.Sprintf("invitation-delivered-%d-times-of-%d:%s", n, want, form), "%d invitation(s) %q (reason|password|thread) were relayed, HandleInvite saw %d; all callbacks %v", want, key, n, invites)
		}
	}
	for _, key := range sortedKeys(invites) {
		n := invites[key]
		if wantInv[key] == 0 {
			rc.Failf("C18.c7", "invitation-invented", "HandleInvite was called %d times with %q which no invitation carried", n, key)
		}
	}
	rc.Spawn("peer-close", func() { pw(closeTag) })
	rc.S.Run(func() bool { return e.ServeDone }, 20000, time.Minute)
	rc.Check("C18.c8", "serve-stalled", e.ServeDone, "Serve did not return after the peer closed: stuck %v", rc.S.Stuck())
	stuck := rc.Teardown()
	rc.CheckPanics("C18.c8")
	rc.Check("C18.c8", "stuck-after-teardown", len(stuck) == 0, "tasks still blocked after teardown: %v", stuck)
}
