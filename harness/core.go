// Package harness holds the workloads, fault plans and oracles of every
// claimed property, and the worker loop that executes seeded runs of them
// inside the simulator.
package harness

import (
	"fmt"
	"os"
	"sort"
	"strconv"
	"strings"
	"testing"
	"testing/cryptotest"
	"testing/synctest"
	"time"

	"verif.sim/simrt"
	"verif.sim/simrt/simnet"
)

// Failure is one clause violation observed in a run.
type Failure struct {
	Clause string `json:"clause"` // e.g. C10.c3
	Sig    string `json:"sig"`    // clause + operation kind / call site (never the seed): identity for known findings
	Msg    string `json:"msg"`
}

// RC is the context of one run.
type RC struct {
	T     *testing.T
	Prop  string
	Tier  string
	Seed  uint64
	Ch    *simrt.Chooser
	S     *simrt.Sched
	Net   *simnet.Net
	Fails []Failure
	Desc  []string
	Evals map[string]int
	Fired map[string]int // harness-level fault kinds (peer-drop, cancel, ...)
	Infra []string
	// Index is the global index of this run in the batch (run i of worker w of W has index i*W+w); enumerating scenarios decode it.
	Index int
	// Gauges are merged across runs by maximum (e.g. sizes of enumerated spaces).
	Gauges map[string]int
	// Nontrivial is set by the scenario when the case counts as non-trivial by
	// the property's stated rule (in addition to preemptions / transport faults).
	Nontrivial bool
	// CaseKey is hashed into the distinct-case measure together with the
	// interleaving hash.
	CaseKey string
	cleanup []func()
}

// Failf records a clause violation.
func (rc *RC) Failf(clause, sig, format string, a ...any) {
	msg := fmt.Sprintf(format, a...)
	if len(msg) > 1500 {
		msg = msg[:1500] + "…"
	}
	full := clause + ":" + sig
	for _, f := range rc.Fails {
		if f.Sig == full {
			return
		}
	}
	rc.Fails = append(rc.Fails, Failure{Clause: clause, Sig: full, Msg: msg})
}

// Check counts an evaluation of clause and records a violation if !ok.
func (rc *RC) Check(clause, sig string, ok bool, format string, a ...any) bool {
	rc.Evals[clause]++
	if !ok {
		rc.Failf(clause, sig, format, a...)
	}
	return ok
}

// Describe appends to the human-readable description of the case.
func (rc *RC) Describe(format string, a ...any) {
	if len(rc.Desc) < 40 {
		rc.Desc = append(rc.Desc, fmt.Sprintf(format, a...))
	}
}

// Fire counts a harness-level fault kind that actually happened.
func (rc *RC) Fire(kind string) { rc.Fired[kind]++ }

// Infraf records an infrastructure problem (harness bug): exit 2, never a violation.
func (rc *RC) Infraf(format string, a ...any) {
	rc.Infra = append(rc.Infra, fmt.Sprintf(format, a...))
}

// OnCleanup registers teardown work (cancel contexts, close pipes).
func (rc *RC) OnCleanup(f func()) { rc.cleanup = append(rc.cleanup, f) }

// Spawn starts a harness task.
func (rc *RC) Spawn(name string, f func()) *simrt.Task { return rc.S.Spawn(name, f) }

// Teardown cancels everything and lets every task finish; tasks that are still
// there afterwards are returned.
func (rc *RC) Teardown() []string {
	for i := len(rc.cleanup) - 1; i >= 0; i-- {
		rc.cleanup[i]()
	}
	rc.cleanup = nil
	rc.S.PausePerm = 0
	for _, t := range rc.S.Tasks() {
		t.Daemon = false
		t.Frozen = false
	}
	st := rc.S.Run(nil, 20000, 10*time.Minute)
	if st == simrt.AllDone {
		return nil
	}
	return rc.S.Stuck()
}

// isHarnessPanic classifies a recovered panic by the first frame below the
// runtime: a panic raised in harness code is an infrastructure problem.
func isHarnessPanic(stack string) bool {
	seen := false
	for _, l := range strings.Split(stack, "\n") {
		if strings.HasPrefix(l, "panic(") {
			seen = true
			continue
		}
		if !seen || strings.HasPrefix(l, "\t") || l == "" {
			continue
		}
		if strings.HasPrefix(l, "runtime.") || strings.HasPrefix(l, "runtime/") {
			continue
		}
		if strings.HasPrefix(l, "verif.sim/simrt/simsync.") {
			// the stand-ins for sync's types panic where the real ones do (unlock of an unlocked mutex, ...): the
			// caller is to blame
			continue
		}
		return strings.HasPrefix(l, "verif.sim/harness.") || strings.HasPrefix(l, "verif.sim/simrt")
	}
	return false
}

// panicSite extracts "pkg.func" of the first non-runtime frame below the panic.
func panicSite(stack string) string {
	seen := false
	for _, l := range strings.Split(stack, "\n") {
		if strings.HasPrefix(l, "panic(") {
			seen = true
			continue
		}
		if !seen || strings.HasPrefix(l, "\t") || l == "" {
			continue
		}
		if strings.HasPrefix(l, "runtime.") || strings.HasPrefix(l, "runtime/") || strings.HasPrefix(l, "testing.") || strings.HasPrefix(l, "verif.sim/simrt/simsync.") {
			continue
		}
		if i := strings.LastIndex(l, "("); i > 0 {
			l = l[:i]
		}
		return l
	}
	return "?"
}

// CheckPanics turns library panics into violations of clause and harness
// panics into infrastructure errors.
func (rc *RC) CheckPanics(clause string) {
	rc.Evals[clause]++
	for _, t := range rc.S.Tasks() {
		if t.Panic == nil {
			continue
		}
		if isHarnessPanic(t.Stack) {
			rc.Infraf("harness panic in task %s: %v\n%s", t.Name, t.Panic, simrt.ShortStack(t.Stack, 16))
			continue
		}
		rc.Failf(clause, "panic@"+panicSite(t.Stack), "panic in task %s: %v\n%s", t.Name, t.Panic, simrt.ShortStack(t.Stack, 14))
	}
}

// RunResult is everything the worker keeps of one run.
type RunResult struct {
	Seed        uint64           `json:"seed"`
	Fails       []Failure        `json:"fails,omitempty"`
	Infra       []string         `json:"infra,omitempty"`
	LogHash     uint64           `json:"log_hash"`
	IlvHash     uint64           `json:"ilv_hash"`
	Steps       int              `json:"steps"`
	SimNS       int64            `json:"sim_ns"`
	Decisions   int              `json:"decisions"`
	Preemptions int              `json:"preemptions"`
	Pauses      int              `json:"pauses"`
	Fired       map[string]int   `json:"fired,omitempty"`
	Probes      map[string]int   `json:"probes,omitempty"`
	Evals       map[string]int   `json:"evals,omitempty"`
	Desc        []string         `json:"desc,omitempty"`
	Trace       []string         `json:"trace,omitempty"`
	Draws       map[string][]int `json:"draws,omitempty"`
	Nontrivial  bool             `json:"nontrivial"`
	CaseHash    uint64           `json:"case_hash"`
	Gauges      map[string]int   `json:"gauges,omitempty"`
}

// Scenario is the executable form of one property's check.
type Scenario struct {
	ID  string
	Run func(rc *RC)
	// NoSched scenarios (E4) do not need the scheduler or the bubble.
	NoSched bool
	// FixedSeed lets an enumerating scenario pin the seed of a run (so that
	// every enumerated fault position is applied to the same execution).
	FixedSeed func(tier string, index int, master uint64) (uint64, bool)
	// Alt, if set, replaces Run in every run whose index is AltEvery-1 modulo AltEvery, and always runs inside the bubble
	// with the scheduler (a NoSched scenario's concurrent form).
	Alt      func(rc *RC)
	AltEvery int
}

var scenarios = map[string]*Scenario{}

func register(s *Scenario) { scenarios[s.ID] = s }

func mergeCounts(dst, src map[string]int) {
	for k, v := range src {
		dst[k] += v
	}
}

func hashStr(s string) uint64 {
	var h uint64 = 14695981039346656037
	for i := 0; i < len(s); i++ {
		h ^= uint64(s[i])
		h *= 1099511628211
	}
	return h
}

// execRun executes one run of sc: one seed (plus optional overrides) is one
// exactly repeatable execution.
func execRun(t *testing.T, sc *Scenario, tier string, seed uint64, index int, overrides map[string][]int) (res RunResult) {
	res.Seed = seed
	rc := &RC{Prop: sc.ID, Tier: tier, Seed: seed, Index: index, Evals: map[string]int{}, Fired: map[string]int{}, Gauges: map[string]int{}}
	finish := func() {
		res.Fails, res.Infra, res.Desc, res.Evals, res.Gauges = rc.Fails, rc.Infra, rc.Desc, rc.Evals, rc.Gauges
		res.Fired = map[string]int{}
		mergeCounts(res.Fired, rc.Fired)
		res.Draws = rc.Ch.Draws()
		if rc.S != nil {
			res.LogHash, res.IlvHash, res.Steps = rc.S.LogHash(), rc.S.InterleavingHash(), rc.S.Steps
			res.SimNS = int64(rc.S.Now())
			res.Decisions, res.Preemptions, res.Pauses = rc.S.Decisions, rc.S.Preemptions, rc.S.Pauses
			res.Probes = rc.S.Probes
			res.Trace = rc.S.Trace
			mergeCounts(res.Fired, rc.Net.Fired)
			if rc.S.Pauses > 0 {
				res.Fired["pause"] += rc.S.Pauses
			}
			if rc.S.DensePreempts > 0 {
				res.Fired["dense-preempt"] += rc.S.DensePreempts
			}
		}
		nfaults := 0
		for _, v := range res.Fired {
			nfaults += v
		}
		res.Nontrivial = rc.Nontrivial || res.Preemptions > 0 || nfaults > 0
		res.CaseHash = res.IlvHash ^ hashStr(rc.CaseKey) ^ hashStr(strings.Join(rc.Desc, "|"))
	}
	simrt.ResetGlobals() // instrumenter rule 8: no package-level free list, cache or scratch buffer survives from an earlier run
	runF, noSched := sc.Run, sc.NoSched
	if sc.Alt != nil && sc.AltEvery > 0 && index%sc.AltEvery == sc.AltEvery-1 {
		runF, noSched = sc.Alt, false
	}
	if noSched {
		rc.Ch = simrt.NewChooser(seed, overrides)
		rc.T = t
		func() {
			defer func() {
				if r := recover(); r != nil {
					rc.Infraf("harness panic: %v", r)
				}
			}()
			sc.Run(rc)
		}()
		finish()
		res.LogHash = hashStr(fmt.Sprint(rc.Desc, rc.Fails))
		return
	}
	cryptotest.SetGlobalRandom(t, seed)
	func() {
		defer func() {
			if r := recover(); r != nil {
				msg := fmt.Sprint(r)
				// tasks that never finish leave the bubble deadlocked at exit; that
				// is reported by the scenario itself (stuck tasks), not here.
				if !strings.Contains(msg, "deadlock") {
					rc.Infraf("bubble panic: %v", msg)
				}
			}
		}()
		synctest.Test(t, func(t *testing.T) {
			rc.T = t
			rc.Ch = simrt.NewChooser(seed, overrides)
			rc.S = simrt.New(rc.Ch, synctest.Wait)
			rc.Net = simnet.NewNet(rc.S)
			if n, err := strconv.Atoi(os.Getenv("VERIF_TRACEMAX")); err == nil && n > 0 {
				rc.S.TraceMax = n
			}
			simrt.Active = rc.S
			defer func() { simrt.Active = nil }()
			func() {
				defer func() {
					if r := recover(); r != nil {
						rc.Infraf("scenario panic: %v", r)
					}
				}()
				runF(rc)
			}()
			finish()
		})
	}()
	if rc.Ch == nil {
		rc.Ch = simrt.NewChooser(seed, overrides)
	}
	if res.Draws == nil {
		finish()
	}
	return
}

func sortedKeys(m map[string]int) []string {
	var k []string
	for s := range m {
		k = append(k, s)
	}
	sort.Strings(k)
	return k
}
