package harness

import (
	"bytes"
	"context"
	"crypto/ed25519"
	"crypto/rand"
	"crypto/tls"
	"crypto/x509"
	"crypto/x509/pkix"
	"encoding/xml"
	"fmt"
	"io"
	"math/big"
	"net"
	"time"

	"mellium.im/sasl"
	"mellium.im/xmlstream"
	"mellium.im/xmpp"
	"mellium.im/xmpp/component"
	"mellium.im/xmpp/jid"
	"mellium.im/xmpp/s2s"
	"mellium.im/xmpp/websocket"
	"verif.sim/simrt"
	"verif.sim/simrt/simnet"
)

// E1: session establishment between a real initiator and a real receiver (or a
// scripted peer) over the simulated transport.

type featStep struct {
	NS    string
	State xmpp.SessionState
	Mask  xmpp.SessionState
	RW    bool
	Err   error
	Step  int
}

// trackConn records transport errors handed to one side.
type trackConn struct {
	*simnet.Conn
	firstErr error
	errOp    string
	// scheduler steps at which a Write call that carries the start of a stream header began
	hdrWrites []int
}

func (c *trackConn) Read(p []byte) (int, error) {
	n, err := c.Conn.Read(p)
	if err != nil && c.firstErr == nil {
		c.firstErr, c.errOp = err, "read"
	}
	return n, err
}

func (c *trackConn) Write(p []byte) (int, error) {
	if sch := simrt.Active; sch != nil && (bytes.Contains(p, []byte("<stream:stream")) || bytes.Contains(p, []byte("<open "))) {
		c.hdrWrites = append(c.hdrWrites, sch.Steps)
	}
	n, err := c.Conn.Write(p)
	if err != nil && c.firstErr == nil {
		c.firstErr, c.errOp = err, "write"
	}
	return n, err
}

type plainRW struct{ c *trackConn }

func (p plainRW) Read(b []byte) (int, error)  { return p.c.Read(b) }
func (p plainRW) Write(b []byte) (int, error) { return p.c.Write(b) }

var _ net.Conn = (*trackConn)(nil)

type hsSide struct {
	name     string
	sess     *xmpp.Session
	err      error
	done     bool
	retStep  int
	retTime  time.Duration
	conn     *trackConn
	steps    []featStep
	ctx      context.Context
	cancel   context.CancelFunc
	task     *simrt.Task
	scripted bool
}

func wrapFeature(rc *RC, f xmpp.StreamFeature, log *[]featStep) xmpp.StreamFeature {
	orig := f.Negotiate
	if orig == nil {
		return f
	}
	if parse := f.Parse; parse != nil {
		// parsing what the peer advertised is a step of the negotiation too
		f.Parse = func(ctx context.Context, d *xml.Decoder, start *xml.StartElement) (bool, interface{}, error) {
			req, data, err := parse(ctx, d, start)
			if err != nil {
				*log = append(*log, featStep{NS: f.Name.Space + "#parse", Err: err, Step: rc.S.Steps})
			}
			return req, data, err
		}
	}
	if list := f.List; list != nil {
		// ... and so is writing the advertisement on the receiving side
		f.List = func(ctx context.Context, e xmlstream.TokenWriter, start xml.StartElement) (bool, error) {
			req, err := list(ctx, e, start)
			if err != nil {
				*log = append(*log, featStep{NS: f.Name.Space + "#list", Err: err, Step: rc.S.Steps})
			}
			return req, err
		}
	}
	f.Negotiate = func(ctx context.Context, s *xmpp.Session, data interface{}) (xmpp.SessionState, io.ReadWriter, error) {
		st := s.State()
		mask, rw, err := orig(ctx, s, data)
		*log = append(*log, featStep{NS: f.Name.Space, State: st, Mask: mask, RW: rw != nil, Err: err, Step: rc.S.Steps})
		return mask, rw, err
	}
	return f
}

func mkcert(domain string) (tls.Certificate, *x509.CertPool) {
	pub, priv, _ := ed25519.GenerateKey(rand.Reader)
	tmpl := &x509.Certificate{SerialNumber: big.NewInt(1), Subject: pkix.Name{CommonName: domain}, DNSNames: []string{domain},
		NotBefore: time.Unix(0, 0), NotAfter: time.Unix(4000000000, 0)}
	der, _ := x509.CreateCertificate(rand.Reader, tmpl, tmpl, pub, priv)
	pool := x509.NewCertPool()
	x, _ := x509.ParseCertificate(der)
	pool.AddCert(x)
	return tls.Certificate{Certificate: [][]byte{der}, PrivateKey: priv}, pool
}

// finFeature is a synthetic mandatory feature: one request/acknowledge
// exchange, then Ready.
func finFeature(fail error) xmpp.StreamFeature { return finFeatureNS("urn:verif:fin", fail) }

func finFeatureNS(ns string, fail error) xmpp.StreamFeature {
	name := xml.Name{Space: ns, Local: "fin"}
	return xmpp.StreamFeature{
		Name:       name,
		Prohibited: xmpp.Ready,
		List: func(ctx context.Context, e xmlstream.TokenWriter, start xml.StartElement) (bool, error) {
			if err := e.EncodeToken(start); err != nil {
				return true, err
			}
			return true, e.EncodeToken(start.End())
		},
		Parse: func(ctx context.Context, d *xml.Decoder, start *xml.StartElement) (bool, interface{}, error) {
			return true, nil, d.Skip()
		},
		Negotiate: func(ctx context.Context, s *xmpp.Session, data interface{}) (xmpp.SessionState, io.ReadWriter, error) {
			return exchange(s, name, "fin-ok", xmpp.Ready, fail)
		},
	}
}

// volFeature is a synthetic voluntary feature (may be made to fail).
func volFeature(ns string, fail error) xmpp.StreamFeature {
	name := xml.Name{Space: ns, Local: "vol"}
	return xmpp.StreamFeature{
		Name: name,
		List: func(ctx context.Context, e xmlstream.TokenWriter, start xml.StartElement) (bool, error) {
			if err := e.EncodeToken(start); err != nil {
				return false, err
			}
			return false, e.EncodeToken(start.End())
		},
		Parse: func(ctx context.Context, d *xml.Decoder, start *xml.StartElement) (bool, interface{}, error) {
			return false, nil, d.Skip()
		},
		Negotiate: func(ctx context.Context, s *xmpp.Session, data interface{}) (xmpp.SessionState, io.ReadWriter, error) {
			return exchange(s, name, "vol-ok", 0, fail)
		},
	}
}

// exchange performs a one-element request/acknowledge exchange in either role.
func exchange(s *xmpp.Session, name xml.Name, ack string, mask xmpp.SessionState, fail error) (xmpp.SessionState, io.ReadWriter, error) {
	r := s.TokenReader()
	defer r.Close()
	w := s.TokenWriter()
	defer w.Close()
	d := xml.NewTokenDecoder(r)
	if s.State()&xmpp.Received != 0 {
		tok, err := d.Token()
		if err != nil {
			return 0, nil, err
		}
		if _, ok := tok.(xml.StartElement); !ok {
			return 0, nil, fmt.Errorf("verif: expected start, got %T", tok)
		}
		if err := d.Skip(); err != nil {
			return 0, nil, err
		}
		if fail != nil {
			return 0, nil, fail
		}
		st := xml.StartElement{Name: xml.Name{Space: name.Space, Local: ack}}
		if err := w.EncodeToken(st); err != nil {
			return 0, nil, err
		}
		if err := w.EncodeToken(st.End()); err != nil {
			return 0, nil, err
		}
		return mask, nil, w.Flush()
	}
	st := xml.StartElement{Name: name}
	if err := w.EncodeToken(st); err != nil {
		return 0, nil, err
	}
	if err := w.EncodeToken(st.End()); err != nil {
		return 0, nil, err
	}
	if err := w.Flush(); err != nil {
		return 0, nil, err
	}
	tok, err := d.Token()
	if err != nil {
		return 0, nil, err
	}
	se, ok := tok.(xml.StartElement)
	if !ok || se.Name.Local != ack {
		return 0, nil, fmt.Errorf("verif: expected <%s/>, got %v", ack, tok)
	}
	if err := d.Skip(); err != nil {
		return 0, nil, err
	}
	if fail != nil {
		// the exchange itself completed (the stream stays in sync); the step fails
		return 0, nil, fail
	}
	return mask, nil, nil
}

var hsKinds = []string{"plain", "tls", "s2s", "ws", "component", "volfail", "volparse", "bidi", "bidionly", "listfail"}

// HS is one handshake under simulation.
type HS struct {
	rc     *RC
	kind   string
	C, S   *hsSide // initiator, receiver
	plain  bool    // transports without deadlines
	cliJID jid.JID
	// clientOnly: do not wait for the receiver (fault-free volfail probe)
	clientOnly bool
	// freezePeer: at the cancellation instant the peer stops running altogether
	freezePeer bool
}

// newHS wires both sides of a handshake of the given kind over a fresh pipe;
// Start launches them.
func (rc *RC) newHS(kind string, plainTransport bool) *HS {
	h := &HS{rc: rc, kind: kind, plain: plainTransport}
	cc, sc := rc.Net.Pipe("cli", "srv")
	h.C = &hsSide{name: "client", conn: &trackConn{Conn: cc}}
	h.S = &hsSide{name: "server", conn: &trackConn{Conn: sc}}
	for _, sd := range []*hsSide{h.C, h.S} {
		sd := sd
		sd.ctx, sd.cancel = context.WithTimeout(context.Background(), 5*time.Minute)
		rc.OnCleanup(func() { sd.cancel(); sd.conn.Conn.Close() })
	}
	h.cliJID = jid.MustParse("me@example.net/res")
	return h
}

func (h *HS) rw(sd *hsSide) io.ReadWriter {
	if h.plain {
		return plainRW{sd.conn}
	}
	return sd.conn
}

func (h *HS) run(sd *hsSide, f func() (*xmpp.Session, error)) {
	sd.task = h.rc.Spawn(sd.name, func() {
		sd.sess, sd.err = f()
		sd.done, sd.retStep, sd.retTime = true, h.rc.S.Steps, h.rc.S.Now()
	})
}

// Start launches both sides.
func (h *HS) Start() {
	rc := h.rc
	cf := func(fs ...xmpp.StreamFeature) []xmpp.StreamFeature {
		for i := range fs {
			fs[i] = wrapFeature(rc, fs[i], &h.C.steps)
		}
		return fs
	}
	sf := func(fs ...xmpp.StreamFeature) []xmpp.StreamFeature {
		for i := range fs {
			fs[i] = wrapFeature(rc, fs[i], &h.S.steps)
		}
		return fs
	}
	neg := func(fs []xmpp.StreamFeature) xmpp.Negotiator {
		return xmpp.NewNegotiator(func(*xmpp.Session, *xmpp.StreamConfig) xmpp.StreamConfig { return xmpp.StreamConfig{Features: fs} })
	}
	perm := func(*sasl.Negotiator) bool { return true }
	origin := h.cliJID
	switch h.kind {
	case "plain", "volfail", "volparse":
		cfs := cf(xmpp.SASL("", "pass", sasl.Plain), xmpp.BindResource())
		sfs := sf(xmpp.SASLServer(perm, sasl.Plain), xmpp.BindResource())

		if h.kind == "volfail" {
			cfs = append(cf(volFeature("urn:verif:vol", errBoom)), cfs...)
			sfs = append(sf(volFeature("urn:verif:vol", nil)), sfs...)
		}
		if h.kind == "volparse" {
			// a voluntary feature whose advertisement the initiator cannot make sense of, listed next to the others
			bad := volFeature("urn:verif:vol", nil)
			bad.Parse = func(ctx context.Context, d *xml.Decoder, start *xml.StartElement) (bool, interface{}, error) {
				if err := d.Skip(); err != nil {
					return false, nil, err
				}
				return false, nil, errBoom
			}
			cfs = append(cf(bad), cfs...)
			sfs = append(sf(volFeature("urn:verif:vol", nil)), sfs...)
		}
		h.run(h.C, func() (*xmpp.Session, error) {
			return xmpp.NewSession(h.C.ctx, origin.Domain(), origin, h.rw(h.C), xmpp.Secure, neg(cfs))
		})
		h.run(h.S, func() (*xmpp.Session, error) { return xmpp.ReceiveSession(h.S.ctx, h.rw(h.S), xmpp.Secure, neg(sfs)) })
	case "tls":
		cert, pool := mkcert("example.net")
		cfs := cf(xmpp.StartTLS(&tls.Config{RootCAs: pool, ServerName: "example.net", MinVersion: tls.VersionTLS12}), xmpp.SASL("", "pass", sasl.Plain), xmpp.BindResource())
		sfs := sf(xmpp.StartTLS(&tls.Config{Certificates: []tls.Certificate{cert}, MinVersion: tls.VersionTLS12}), xmpp.SASLServer(perm, sasl.Plain), xmpp.BindResource())
		h.run(h.C, func() (*xmpp.Session, error) {
			return xmpp.NewSession(h.C.ctx, origin.Domain(), origin, h.rw(h.C), 0, neg(cfs))
		})
		h.run(h.S, func() (*xmpp.Session, error) { return xmpp.ReceiveSession(h.S.ctx, h.rw(h.S), 0, neg(sfs)) })
	case "bidi", "bidionly":
		// a server-to-server initiator that asks for a bidirectional stream (XEP-0288, a voluntary feature that expects no
		// answer) before the mandatory feature - or as the only thing there is to negotiate
		cfs := cf(s2s.Bidi(), finFeature(nil))
		st := xmpp.S2S | xmpp.Secure
		h.run(h.C, func() (*xmpp.Session, error) {
			return xmpp.NewSession(h.C.ctx, jid.MustParse("b.example"), jid.MustParse("a.example"), h.rw(h.C), st, neg(cfs))
		})
		h.S.scripted = true
		only := h.kind == "bidionly"
		h.S.task = rc.Spawn("server", func() {
			out := h.C.conn.Conn.Out()
			wait := func(site string, sub string) {
				simrt.WaitUntil(site, func() bool { return bytes.Contains(out.Tap, []byte(sub)) || h.S.ctx.Err() != nil || h.C.done })
			}
			wait("bidi:header", "version='1.0'")
			feats := `<bidi xmlns='urn:xmpp:features:bidi'/><fin xmlns='urn:verif:fin'/>`
			if only {
				feats = `<bidi xmlns='urn:xmpp:features:bidi'/>`
			}
			if _, err := io.WriteString(h.S.conn, `<?xml version='1.0'?><stream:stream xmlns='jabber:server' xmlns:stream='http://etherx.jabber.org/streams' from='b.example' to='a.example' id='sid7' version='1.0'><stream:features>`+feats+`</stream:features>`); err != nil {
				h.S.err = err
			}
			wait("bidi:request", "urn:xmpp:bidi")
			if !only {
				wait("bidi:fin", "</fin>")
				if h.S.err == nil {
					_, h.S.err = io.WriteString(h.S.conn, `<fin-ok xmlns='urn:verif:fin'/>`)
				}
			}
			h.S.done, h.S.retStep = true, rc.S.Steps
		})
	case "listfail":
		// a receiver whose second advertisement (after authentication) contains a feature that cannot be listed - a back
		// end that is down, say; the failure is the feature's own, nothing is wrong with the transport. The initiator is
		// scripted: it does not wait for the end of a features list before it selects what it has seen in it.
		lf := volFeature("urn:verif:lf", nil)
		lf.Necessary = xmpp.Authn
		lf.List = func(ctx context.Context, e xmlstream.TokenWriter, start xml.StartElement) (bool, error) {
			return false, errBoom
		}
		sfs := sf(xmpp.SASLServer(perm, sasl.Plain), xmpp.BindResource(), lf)
		h.run(h.S, func() (*xmpp.Session, error) { return xmpp.ReceiveSession(h.S.ctx, h.rw(h.S), xmpp.Secure, neg(sfs)) })
		h.C.scripted = true
		h.C.task = rc.Spawn("client", func() {
			out := h.S.conn.Conn.Out()
			wait := func(site string, sub string, n int) {
				simrt.WaitUntil(site, func() bool { return bytes.Count(out.Tap, []byte(sub)) >= n || h.C.ctx.Err() != nil || h.S.done })
			}
			hdr := `<?xml version='1.0'?><stream:stream xmlns='jabber:client' xmlns:stream='http://etherx.jabber.org/streams' version='1.0' to='example.net' from='me@example.net'>`
			say := func(x string) {
				if h.C.err == nil {
					_, h.C.err = io.WriteString(h.C.conn, x)
				}
			}
			say(hdr)
			wait("lf:mechanisms", "</stream:features>", 1)
			say(`<auth xmlns='urn:ietf:params:xml:ns:xmpp-sasl' mechanism='PLAIN'>AG1lAHBhc3M=</auth>`)
			wait("lf:success", "<success", 1)
			say(hdr)
			wait("lf:bind", "<bind", 1)
			say(`<iq type='set' id='b1'><bind xmlns='urn:ietf:params:xml:ns:xmpp-bind'/></iq>`)
			wait("lf:result", "</iq>", 1)
			h.C.done, h.C.retStep = true, rc.S.Steps
		})
	case "s2s":
		// ReceiveSession cannot accept an s2s initiator that names itself (the
		// receiving branch compares the header's from with the still empty
		// origin), so the receiving end of this handshake is scripted.
		cfs := cf(finFeature(nil))
		st := xmpp.S2S | xmpp.Secure | xmpp.Authn
		h.run(h.C, func() (*xmpp.Session, error) {
			return xmpp.NewSession(h.C.ctx, jid.MustParse("b.example"), jid.MustParse("a.example"), h.rw(h.C), st, neg(cfs))
		})
		h.S.scripted = true
		h.S.task = rc.Spawn("server", func() {
			out := h.C.conn.Conn.Out()
			wait := func(site string, sub string) {
				simrt.WaitUntil(site, func() bool { return bytes.Contains(out.Tap, []byte(sub)) || h.S.ctx.Err() != nil })
			}
			wait("s2s:header", "version='1.0'")
			if _, err := io.WriteString(h.S.conn, `<?xml version='1.0'?><stream:stream xmlns='jabber:server' xmlns:stream='http://etherx.jabber.org/streams' from='b.example' to='a.example' id='sid7' version='1.0'><stream:features><fin xmlns='urn:verif:fin'/></stream:features>`); err != nil {
				h.S.err = err
			}
			wait("s2s:fin", "</fin>")
			if h.S.err == nil {
				_, h.S.err = io.WriteString(h.S.conn, `<fin-ok xmlns='urn:verif:fin'/>`)
			}
			h.S.done, h.S.retStep = true, rc.S.Steps
		})
	case "ws":
		cfs := cf(xmpp.SASL("", "pass", sasl.Plain), xmpp.BindResource())
		sfs := sf(xmpp.SASLServer(perm, sasl.Plain), xmpp.BindResource())
		wsneg := func(fs []xmpp.StreamFeature) xmpp.Negotiator {
			return websocket.Negotiator(func(*xmpp.Session, *xmpp.StreamConfig) xmpp.StreamConfig { return xmpp.StreamConfig{Features: fs} })
		}
		h.run(h.C, func() (*xmpp.Session, error) {
			return xmpp.NewSession(h.C.ctx, origin.Domain(), origin, h.rw(h.C), xmpp.Secure, wsneg(cfs))
		})
		h.run(h.S, func() (*xmpp.Session, error) { return xmpp.ReceiveSession(h.S.ctx, h.rw(h.S), xmpp.Secure, wsneg(sfs)) })
	case "component":
		h.S.scripted = true
		h.run(h.C, func() (*xmpp.Session, error) {
			return component.NewSession(h.C.ctx, jid.MustParse("comp.example.net"), []byte("secret"), h.rw(h.C))
		})
		h.S.task = rc.Spawn("server", func() {
			out := h.C.conn.Conn.Out()
			simrt.WaitUntil("comp:header", func() bool { return bytes.Contains(out.Tap, []byte("to='comp.example.net'>")) || h.S.ctx.Err() != nil })
			if _, err := io.WriteString(h.S.conn, `<?xml version='1.0'?><stream:stream xmlns='jabber:component:accept' xmlns:stream='http://etherx.jabber.org/streams' from='comp.example.net' id='sid42'>`); err != nil {
				h.S.err = err
			}
			simrt.WaitUntil("comp:handshake", func() bool { return bytes.Contains(out.Tap, []byte("</handshake>")) || h.S.ctx.Err() != nil })
			if h.S.err == nil {
				// both spellings of the empty acknowledgement occur in the wild
				ack := `<handshake/>`
				if rc.Ch.Chance("workload", 1, 2) {
					ack = `<handshake></handshake>`
				}
				_, h.S.err = io.WriteString(h.S.conn, ack)
			}
			h.S.done, h.S.retStep = true, rc.S.Steps
		})
	default:
		panic("unknown handshake " + h.kind)
	}
}

// Done reports whether both sides returned.
func (h *HS) Done() bool {
	if (h.kind == "volfail" || h.kind == "volparse") && h.clientOnly {
		// the receiver keeps waiting for the next selection once the initiator gave up
		return h.C.done
	}
	if h.kind == "listfail" {
		// the initiator waits for an advertisement that never comes complete
		return h.S.done
	}
	return h.C.done && h.S.done
}
