package harness

import (
	"bytes"
	"context"
	"encoding/xml"
	"fmt"
	"io"
	"strings"
	"time"

	"mellium.im/xmpp"
	"mellium.im/xmpp/component"
	"mellium.im/xmpp/jid"
	"mellium.im/xmpp/websocket"
	"verif.sim/simrt"
	"verif.sim/simrt/simnet"
)

// E2 is an established session (system under test) on one end of a simulated
// pipe with a scripted raw-XML peer on the other end.
type E2 struct {
	rc        *RC
	tag       string
	tornDown  bool
	Sess      *xmpp.Session
	SUT, Peer *simnet.Conn
	Local     jid.JID
	Remote    jid.JID
	NS        string
	Server    bool
	WS        bool
	EstErr    error
	// Serve bookkeeping
	ServeErr     error
	ServeDone    bool
	ServeRetStep int
	ServeRetTime time.Duration
	Ctx          context.Context
	Cancel       context.CancelFunc
	// PeerEstLen is how many bytes the peer wrote during establishment (header
	// and feature list); PeerHeader is the header part of it.
	PeerEstLen int
	PeerHeader []byte
}

// E2Opts selects the session variant.
type E2Opts struct {
	S2S   bool // server-to-server namespace (stanzas get a from)
	WS    bool // WebSocket framing (RFC 7395): <open/> ... <close/> instead of an enclosing stream element
	Recv  bool // the session under test is the receiving entity (ReceiveSession); the scripted peer initiates (TCP framing only)
	Plain bool // transport without deadlines (plain io.ReadWriter)
	Chunk bool // short reads on both ends
	Tag   string // suffix for the names of this session's connections and tasks (a second session in one run)
	Comp  bool // component protocol (XEP-0114): the session is established with component.NewSession, content namespace jabber:component:accept
}

const nsStream = "http://etherx.jabber.org/streams"

// NewE2 establishes a session: the SUT is a real initiating session with the
// default negotiator and no features, the peer a script that answers with a
// stream header and an empty feature list.
func (rc *RC) NewE2(o E2Opts) *E2 {
	e := &E2{rc: rc, Server: o.S2S, WS: o.WS}
	e.SUT, e.Peer = rc.Net.Pipe("sut"+o.Tag, "peer"+o.Tag)
	e.tag = o.Tag
	e.Ctx, e.Cancel = context.WithCancel(context.Background())
	rc.OnCleanup(func() { e.tornDown = true; e.Cancel(); e.SUT.Close(); e.Peer.Close() })
	if o.Chunk {
		rc.Net.Chunk = func() int { return 1 + rc.Ch.Int("net", 60) }
	}
	e.NS = "jabber:client"
	state := xmpp.Secure | xmpp.Authn
	e.Local = jid.MustParse("me@example.net/sut")
	e.Remote = jid.MustParse("example.net")
	if o.S2S {
		e.NS = "jabber:server"
		state |= xmpp.S2S
		e.Local = jid.MustParse("a.example")
		e.Remote = jid.MustParse("b.example")
	}
	if o.Comp {
		e.NS = component.NSAccept
		e.Local = jid.MustParse("comp.example.net")
		e.Remote = jid.MustParse("comp.example.net")
	}
	if o.Recv && !o.S2S {
		e.Local, e.Remote = jid.MustParse("example.net"), jid.MustParse("me@example.net/peer")
	}
	var rw io.ReadWriter = e.SUT
	if o.Plain {
		rw = simnet.Plain{C: e.SUT}
	}
	cfgf := func(*xmpp.Session, *xmpp.StreamConfig) xmpp.StreamConfig {
		if o.Recv {
			// a receiving entity without features never finishes negotiating: one synthetic mandatory feature
			return xmpp.StreamConfig{Features: []xmpp.StreamFeature{finFeature(nil)}}
		}
		return xmpp.StreamConfig{}
	}
	neg := xmpp.NewNegotiator(cfgf)
	if o.WS {
		neg = websocket.Negotiator(cfgf)
	}
	sutT := rc.Spawn("establish"+o.Tag, func() {
		if o.Recv {
			e.Sess, e.EstErr = xmpp.ReceiveSession(e.Ctx, rw, state, neg)
			return
		}
		if o.Comp {
			e.Sess, e.EstErr = component.NewSession(e.Ctx, e.Local, []byte("secret"), rw)
			return
		}
		e.Sess, e.EstErr = xmpp.NewSession(e.Ctx, e.Remote, e.Local, rw, state, neg)
	})
	peerT := rc.Spawn("peer-establish"+o.Tag, func() {
		if o.Recv {
			// the scripted initiator speaks first; a server-to-server initiator that names itself is refused by
			// ReceiveSession (see DESIGN), so it only says whom it wants to talk to
			from := ""
			if !o.S2S {
				from = fmt.Sprintf(" from='%s'", e.Remote)
			}
			fmt.Fprintf(e.Peer, `<?xml version='1.0'?><stream:stream xmlns='%s' xmlns:stream='%s' to='%s'%s version='1.0'>`, e.NS, nsStream, e.Local, from)
			simrt.WaitUntil("peer:features", func() bool {
				return bytes.HasSuffix(e.SUT.Out().Tap, []byte("</stream:features>"))
			})
			io.WriteString(e.Peer, `<fin xmlns='urn:verif:fin'/>`)
			simrt.WaitUntil("peer:fin-ok", func() bool {
				return bytes.Contains(e.SUT.Out().Tap, []byte("fin-ok")) && bytes.HasSuffix(e.SUT.Out().Tap, []byte(">"))
			})
			return
		}
		if o.Comp {
			simrt.WaitUntil("peer:header", func() bool { return bytes.Contains(e.SUT.Out().Tap, []byte("to='comp.example.net'>")) })
			fmt.Fprintf(e.Peer, `<?xml version='1.0'?><stream:stream xmlns='%s' xmlns:stream='%s' from='comp.example.net' id='sid42'>`, e.NS, nsStream)
			simrt.WaitUntil("peer:handshake", func() bool { return bytes.Contains(e.SUT.Out().Tap, []byte("</handshake>")) })
			io.WriteString(e.Peer, `<handshake/>`)
			return
		}
		if o.WS {
			simrt.WaitUntil("peer:header", func() bool {
				return bytes.Contains(e.SUT.Out().Tap, []byte("<open ")) && bytes.HasSuffix(e.SUT.Out().Tap, []byte("/>"))
			})
			fmt.Fprintf(e.Peer, `<open xmlns="urn:ietf:params:xml:ns:xmpp-framing" id='sid1' from='%s' to='%s' version='1.0'/><features xmlns="http://etherx.jabber.org/streams"/>`, e.Remote, e.Local)
			return
		}
		// wait for the SUT's header, answer with ours and an empty feature list
		simrt.WaitUntil("peer:header", func() bool {
			return bytes.Contains(e.SUT.Out().Tap, []byte("version='1.0'")) && bytes.HasSuffix(e.SUT.Out().Tap, []byte(">"))
		})
		fmt.Fprintf(e.Peer, `<?xml version='1.0'?><stream:stream xmlns='%s' xmlns:stream='%s' id='sid1' from='%s' to='%s' version='1.0'><stream:features/>`, e.NS, nsStream, e.Remote, e.Local)
	})
	st := rc.S.Run(func() bool { return sutT.Done() && peerT.Done() }, 5000, time.Minute)
	if e.EstErr != nil || e.Sess == nil || st != simrt.CondMet {
		rc.Infraf("E2 establishment failed: %v (status %v, stuck %v)", e.EstErr, st, rc.S.Stuck())
		return nil
	}
	pt := e.Peer.Out().Tap
	e.PeerEstLen = len(pt)
	if o.Recv {
		e.PeerHeader = append([]byte(nil), pt...)
	} else if o.Comp {
		e.PeerHeader = append([]byte(nil), pt[:bytes.Index(pt, []byte("<handshake/>"))]...)
	} else if !o.WS {
		e.PeerHeader = append([]byte(nil), pt[:bytes.Index(pt, []byte("<stream:features/>"))]...)
	}
	return e
}

// PeerStream is the peer's header followed by everything it wrote after establishment.
func (e *E2) PeerStream() []byte {
	return append(append([]byte(nil), e.PeerHeader...), e.Peer.Out().Tap[e.PeerEstLen:]...)
}

// HeaderLen is the number of bytes of the SUT's stream header on the wire.
func (e *E2) HeaderLen() int {
	t := e.SUT.Out().Tap
	i := bytes.Index(t, []byte("<stream:stream"))
	if i < 0 {
		return 0
	}
	j := bytes.IndexByte(t[i:], '>')
	return i + j + 1
}

// Serve runs Session.Serve as a task.
func (e *E2) Serve(h xmpp.Handler) *simrt.Task {
	return e.rc.Spawn("serve"+e.tag, func() {
		err := e.Sess.Serve(h)
		e.ServeErr, e.ServeDone = err, true
		e.ServeRetStep, e.ServeRetTime = e.rc.S.Steps, e.rc.S.Now()
	})
}

// PeerWrite writes raw bytes from the peer to the SUT.
func (e *E2) PeerWrite(s string) { io.WriteString(e.Peer, s) }

// WaitWire parks the calling task until the SUT's output contains sub.
func (e *E2) WaitWire(site, sub string) {
	b := []byte(sub)
	simrt.WaitUntil("wire:"+site, func() bool { return e.tornDown || bytes.Contains(e.SUT.Out().Tap, b) })
}

// Elem is one top-level element of a parsed stream.
type Elem struct {
	Start xml.StartElement
	Toks  []xml.Token
	Off   int // offset of '<' of the start tag
	End   int // offset just after the end tag
}

// Attr returns the value of the attribute with the given local name.
func (el Elem) Attr(local string) string {
	for _, a := range el.Start.Attr {
		if a.Name.Local == local {
			return a.Value
		}
	}
	return ""
}

// Text concatenates all character data of the element.
func (el Elem) Text() string {
	var sb strings.Builder
	for _, t := range el.Toks {
		if c, ok := t.(xml.CharData); ok {
			sb.Write(c)
		}
	}
	return sb.String()
}

// Wire is a parsed output stream.
type Wire struct {
	Header    *xml.StartElement
	Elems     []Elem
	Closed    bool // closing stream tag seen
	CloseOff  int  // offset of the closing tag
	CloseEnd  int
	Trailing  []byte // whatever follows the first closing tag
	Err       error  // syntax error, if any (position in ErrOff)
	ErrOff    int
	Partial   bool   // input ended inside an element
	TopText   string // non-whitespace character data between top-level elements
	NumCloses int
}

const closeTag = "</stream:stream>"
const closeTagWS = `<close xmlns="urn:ietf:params:xml:ns:xmpp-framing"/>`

// CloseTag is the closing construct of the framing in use.
func (e *E2) CloseTag() string {
	if e.WS {
		return closeTagWS
	}
	return closeTag
}

// ParseOut parses everything the SUT wrote, in the framing in use.
func (e *E2) ParseOut() Wire {
	if e.WS {
		return parseWireWS(e.SUT.Out().Tap)
	}
	return ParseWire(e.SUT.Out().Tap)
}

// parseWireWS: WebSocket framing has no enclosing element: <open/>, top-level elements, <close/>.
func parseWireWS(b []byte) Wire {
	var w Wire
	w.NumCloses = bytes.Count(b, []byte("<close "))
	d := xml.NewDecoder(bytes.NewReader(b))
	depth := 0
	var cur *Elem
	for {
		off := int(d.InputOffset())
		tok, err := d.Token()
		if err != nil {
			if err != io.EOF {
				if strings.Contains(err.Error(), "unexpected EOF") {
					w.Partial = depth > 0
				} else {
					w.Err, w.ErrOff = err, off
				}
			}
			return w
		}
		tok = xml.CopyToken(tok)
		switch t := tok.(type) {
		case xml.StartElement:
			if a := dupAttr(t); a != "" {
				w.Err, w.ErrOff = fmt.Errorf("attribute %s appears twice in <%s>", a, t.Name.Local), off
				return w
			}
			depth++
			if depth == 1 {
				cur = &Elem{Start: t, Off: off}
			}
			cur.Toks = append(cur.Toks, t)
		case xml.EndElement:
			cur.Toks = append(cur.Toks, t)
			depth--
			if depth == 0 {
				cur.End = int(d.InputOffset())
				switch {
				case cur.Start.Name.Space == "urn:ietf:params:xml:ns:xmpp-framing" && cur.Start.Name.Local == "open" && w.Header == nil:
					st := cur.Start
					w.Header = &st
				case cur.Start.Name.Space == "urn:ietf:params:xml:ns:xmpp-framing" && cur.Start.Name.Local == "close":
					w.Closed, w.CloseOff, w.CloseEnd = true, cur.Off, cur.End
					w.Trailing = b[w.CloseEnd:]
					return w
				default:
					w.Elems = append(w.Elems, *cur)
				}
				cur = nil
			}
		case xml.CharData:
			if depth >= 1 {
				cur.Toks = append(cur.Toks, t)
			} else if len(bytes.TrimSpace(t)) > 0 {
				w.TopText += string(t)
			}
		default:
			if depth >= 1 {
				cur.Toks = append(cur.Toks, t)
			}
		}
	}
}

// ParseWire parses everything one side wrote: optional XML declaration, stream
// header, top-level elements, closing tag.
func ParseWire(b []byte) Wire {
	var w Wire
	w.NumCloses = bytes.Count(b, []byte(closeTag))
	d := xml.NewDecoder(bytes.NewReader(b))
	depth := 0
	var cur *Elem
	for {
		off := int(d.InputOffset())
		tok, err := d.Token()
		if err != nil {
			if err == io.EOF {
				w.Partial = depth > 1
				return w
			}
			// an unexpected EOF inside a tag is a truncated stream, not malformed output
			if strings.Contains(err.Error(), "unexpected EOF") {
				// the stream element itself is still open: only an element cut short counts
				w.Partial = depth > 1 || int(d.InputOffset()) < len(bytes.TrimRight(b, " \t\r\n"))
				return w
			}
			w.Err, w.ErrOff = err, off
			return w
		}
		tok = xml.CopyToken(tok)
		switch t := tok.(type) {
		case xml.StartElement:
			if a := dupAttr(t); a != "" {
				// encoding/xml does not enforce the uniqueness of attribute names, well-formedness does
				w.Err, w.ErrOff = fmt.Errorf("attribute %s appears twice in <%s>", a, t.Name.Local), off
				return w
			}
			depth++
			if depth == 1 {
				st := t
				w.Header = &st
				continue
			}
			if depth == 2 {
				cur = &Elem{Start: t, Off: off}
			}
			cur.Toks = append(cur.Toks, t)
		case xml.EndElement:
			if depth == 1 {
				w.Closed, w.CloseOff, w.CloseEnd = true, off, int(d.InputOffset())
				w.Trailing = b[w.CloseEnd:]
				return w
			}
			cur.Toks = append(cur.Toks, t)
			if depth == 2 {
				cur.End = int(d.InputOffset())
				w.Elems = append(w.Elems, *cur)
				cur = nil
			}
			depth--
		case xml.CharData:
			if depth >= 2 {
				cur.Toks = append(cur.Toks, t)
			} else if depth == 1 && len(bytes.TrimSpace(t)) > 0 {
				w.TopText += string(t)
			}
		default:
			if depth >= 2 {
				cur.Toks = append(cur.Toks, t)
			}
		}
	}
}

// dupAttr returns the name of an attribute that occurs twice in a start tag ("" if none).
func dupAttr(t xml.StartElement) string {
	for i, a := range t.Attr {
		for _, b := range t.Attr[:i] {
			if a.Name == b.Name {
				if a.Name.Space != "" {
					return a.Name.Space + ":" + a.Name.Local
				}
				return a.Name.Local
			}
		}
	}
	return ""
}
