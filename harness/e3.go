package harness

import (
	"context"
	"time"

	"mellium.im/xmpp"
	"mellium.im/xmpp/jid"
	"verif.sim/simrt"
	"verif.sim/simrt/simnet"
)

// E3: two real sessions joined by one simulated pipe (a bind-only
// mini-handshake establishes them), each served with its own handler.

type Pair struct {
	rc         *RC
	tag        string
	A, B       *xmpp.Session // A initiated, B received
	CA, CB     *simnet.Conn
	Ctx        context.Context
	Cancel     context.CancelFunc
	ServeA     *simrt.Task
	ServeB     *simrt.Task
	ErrA, ErrB error
	DoneA      bool
	DoneB      bool
}

// NewPair establishes the two sessions; nil on (infrastructure) failure.
func (rc *RC) NewPair(chunk bool) *Pair { return rc.NewPairAs(chunk, "", "a@example.net/ra") }

// NewPairAs: a second pair in one run gets a tag (names of connections and tasks) and an initiator address of its own.
func (rc *RC) NewPairAs(chunk bool, tag, originAddr string) *Pair {
	p := &Pair{rc: rc, tag: tag}
	p.CA, p.CB = rc.Net.Pipe("a"+tag, "b"+tag)
	p.Ctx, p.Cancel = context.WithCancel(context.Background())
	rc.OnCleanup(func() { p.Cancel(); p.CA.Close(); p.CB.Close() })
	if chunk {
		rc.Net.Chunk = func() int { return 1 + rc.Ch.Int("net", 300) }
	}
	origin := jid.MustParse(originAddr)
	var ea, eb error
	neg := func() xmpp.Negotiator {
		return xmpp.NewNegotiator(func(*xmpp.Session, *xmpp.StreamConfig) xmpp.StreamConfig {
			return xmpp.StreamConfig{Features: []xmpp.StreamFeature{xmpp.BindResource()}}
		})
	}
	ta := rc.Spawn("establish-a"+tag, func() {
		p.A, ea = xmpp.NewSession(p.Ctx, origin.Domain(), origin, p.CA, xmpp.Secure|xmpp.Authn, neg())
	})
	tb := rc.Spawn("establish-b"+tag, func() {
		p.B, eb = xmpp.ReceiveSession(p.Ctx, p.CB, xmpp.Secure|xmpp.Authn, neg())
	})
	st := rc.S.Run(func() bool { return ta.Done() && tb.Done() }, 20000, time.Minute)
	if ea != nil || eb != nil || st != simrt.CondMet {
		rc.Infraf("E3 establishment failed: a=%v b=%v status=%v stuck=%v", ea, eb, st, rc.S.Stuck())
		return nil
	}
	return p
}

// Serve starts both serve loops.
func (p *Pair) Serve(ha, hb xmpp.Handler) {
	p.ServeA = p.rc.Spawn("serve-a"+p.tag, func() { p.ErrA = p.A.Serve(ha); p.DoneA = true })
	p.ServeB = p.rc.Spawn("serve-b"+p.tag, func() { p.ErrB = p.B.Serve(hb); p.DoneB = true })
}
