module verif.sim/harness

go 1.26.8

require (
	golang.org/x/crypto v0.31.0
	golang.org/x/text v0.21.0
	mellium.im/sasl v0.3.2
	mellium.im/xmlstream v0.15.4
	mellium.im/xmpp v0.0.0
	verif.sim/simrt v0.0.0
)

require (
	golang.org/x/net v0.33.0 // indirect
	mellium.im/reader v0.1.0 // indirect
)

// bin/check builds with -modfile pointing mellium.im/xmpp at the instrumented
// scratch copy; this file only makes the package loadable for editing.
replace mellium.im/xmpp => /repo

replace verif.sim/simrt => /verif/sim/simrt
