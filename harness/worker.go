package harness

import (
	"encoding/json"
	"fmt"
	"os"
	"runtime"
	"sort"
	"strconv"
	"strings"
	"testing"
	"time"
)

// Replay is the replay file format (/verif/replays/<id>-<hash>.json).
type Replay struct {
	Property  string           `json:"property"`
	Tier      string           `json:"tier"`
	Seed      uint64           `json:"seed"`
	Index     int              `json:"index"`
	Overrides map[string][]int `json:"overrides"` // minimised draws per stream; a draw beyond a list is 0
	Clause    string           `json:"clause"`
	Sig       string           `json:"sig"`
	Msg       string           `json:"msg"`
	LogHash   uint64           `json:"log_hash"`
	Desc      []string         `json:"desc"`
	Trace     []string         `json:"trace"`
	Fired     map[string]int   `json:"fired"`
	MinExecs  int              `json:"minimise_execs"`
	DrawsFrom int              `json:"draws_before_minimise"`
	DrawsTo   int              `json:"draws_after_minimise"`
}

type failGroup struct {
	Sig    string   `json:"sig"`
	Clause string   `json:"clause"`
	Count  int      `json:"count"`
	Seeds  []uint64 `json:"seeds"`
	Replay *Replay  `json:"replay,omitempty"`
	Known  bool     `json:"known"`
}

// WorkerOut is what one worker process reports to the driver.
type WorkerOut struct {
	Prop        string                `json:"prop"`
	Tier        string                `json:"tier"`
	Worker      int                   `json:"worker"`
	Runs        int                   `json:"runs"`
	NextIndex   int                   `json:"next_index"`
	WallS       float64               `json:"wall_s"`
	SimNS       int64                 `json:"sim_ns"`
	Steps       int64                 `json:"steps"`
	Decisions   int64                 `json:"decisions"`
	Preemptions int64                 `json:"preemptions"`
	Fired       map[string]int        `json:"fired"`
	Probes      map[string]int        `json:"probes"`
	Evals       map[string]int        `json:"evals"`
	Hashes      []string              `json:"hashes"` // distinct non-trivial case hashes (hex)
	Nontrivial  int                   `json:"nontrivial_runs"`
	Failures    map[string]*failGroup `json:"failures"`
	Infra       []string              `json:"infra"`
	DetChecked  int                   `json:"det_checked"`
	DetMismatch []string              `json:"det_mismatch"`
	Samples     []RunResult           `json:"samples"`
	Exhausted   bool                  `json:"exhausted"` // the scenario's finite space was enumerated completely
	Gauges      map[string]int        `json:"gauges"`
}

func mix(a uint64, parts ...string) uint64 {
	h := a ^ 0x9e3779b97f4a7c15
	for _, p := range parts {
		h ^= hashStr(p)
		h *= 0xbf58476d1ce4e5b9
		h ^= h >> 29
	}
	h ^= h >> 32
	h *= 0x94d049bb133111eb
	h ^= h >> 29
	return h
}

func envInt(k string, def int) int {
	if v := os.Getenv(k); v != "" {
		if n, err := strconv.Atoi(v); err == nil {
			return n
		}
	}
	return def
}

func failSigs(r RunResult) string {
	var s []string
	for _, f := range r.Fails {
		s = append(s, f.Sig)
	}
	sort.Strings(s)
	return strings.Join(s, ";")
}

func hasSig(r RunResult, sig string) bool {
	for _, f := range r.Fails {
		if f.Sig == sig {
			return true
		}
	}
	return false
}

func cloneDraws(d map[string][]int) map[string][]int {
	o := map[string][]int{}
	for k, v := range d {
		o[k] = append([]int{}, v...)
	}
	return o
}

func countDraws(d map[string][]int) int {
	n := 0
	for _, v := range d {
		for _, x := range v {
			if x != 0 {
				n++
			}
		}
	}
	return n
}

// minimise shrinks the recorded draws of a failing run stream by stream while
// the same failure signature persists.
func minimise(t *testing.T, sc *Scenario, tier string, index int, first RunResult, sig string) *Replay {
	cur := cloneDraws(first.Draws)
	execs := 0
	deadline := time.Now().Add(60 * time.Second)
	try := func(d map[string][]int) (RunResult, bool) {
		execs++
		r := execRun(t, sc, tier, first.Seed, index, d)
		return r, hasSig(r, sig) && len(r.Infra) == 0
	}
	best, ok := try(cur)
	rp := &Replay{Property: sc.ID, Tier: tier, Seed: first.Seed, Index: index, Sig: sig, DrawsFrom: countDraws(cur)}
	if !ok {
		// cannot be reproduced from its own draws: report unminimised by seed only
		rp.Overrides = nil
		best = first
	} else {
		labels := make([]string, 0, len(cur))
		for k := range cur {
			labels = append(labels, k)
		}
		sort.Slice(labels, func(i, j int) bool {
			pi, pj := labels[i] == "sched", labels[j] == "sched"
			if pi != pj {
				return pi
			}
			return labels[i] < labels[j]
		})
		budget := func() bool { return execs < 300 && time.Now().Before(deadline) }
		for _, l := range labels {
			lo, hi := 0, len(cur[l])
			for lo < hi && budget() {
				mid := (lo + hi) / 2
				cand := cloneDraws(cur)
				cand[l] = cand[l][:mid]
				if r, ok := try(cand); ok {
					hi = mid
					best = r
					cur = cand
				} else {
					lo = mid + 1
				}
			}
		}
		for _, l := range labels {
			if len(cur[l]) > 48 {
				continue
			}
			for i := range cur[l] {
				if cur[l][i] == 0 || !budget() {
					continue
				}
				cand := cloneDraws(cur)
				cand[l][i] = 0
				if r, ok := try(cand); ok {
					best = r
					cur = cand
				}
			}
		}
		// draws of the minimised run itself are the canonical override lists
		final := cloneDraws(best.Draws)
		if r, ok := try(final); ok {
			best, cur = r, final
		}
		rp.Overrides = cur
	}
	for _, f := range best.Fails {
		if f.Sig == sig {
			rp.Clause, rp.Msg = f.Clause, f.Msg
		}
	}
	rp.LogHash, rp.Desc, rp.Trace, rp.Fired = best.LogHash, best.Desc, best.Trace, best.Fired
	rp.MinExecs, rp.DrawsTo = execs, countDraws(rp.Overrides)
	return rp
}

// RunWorker is the body of TestWorker.
func RunWorker(t *testing.T) {
	prop := os.Getenv("VERIF_PROP")
	sc := scenarios[prop]
	if sc == nil {
		t.Fatalf("unknown property %q", prop)
	}
	tier := os.Getenv("VERIF_TIER")
	if tier == "" {
		tier = "quick"
	}
	out := os.Getenv("VERIF_OUT")
	if rp := os.Getenv("VERIF_REPLAY"); rp != "" {
		runReplay(t, sc, rp, out)
		return
	}
	master := uint64(envInt("VERIF_SEED", 1))
	if n := envInt("VERIF_DETLIST", 0); n > 0 {
		// determinism self-test: the event-log hashes of the first n runs, to be diffed across processes
		type row struct {
			Index   int    `json:"index"`
			Seed    uint64 `json:"seed"`
			LogHash uint64 `json:"log_hash"`
			Steps   int    `json:"steps"`
			Sigs    string `json:"sigs"`
		}
		var rows []row
		for i := 0; i < n; i++ {
			seed := mix(master, prop, tier, "0", strconv.Itoa(i))
			if sc.FixedSeed != nil {
				if fs, ok := sc.FixedSeed(tier, i, master); ok {
					seed = fs
				}
			}
			r := execRun(t, sc, tier, seed, i, nil)
			rows = append(rows, row{i, seed, r.LogHash, r.Steps, failSigs(r) + strings.Join(r.Infra, "|")})
		}
		writeJSON(t, out, map[string]any{"det": rows})
		return
	}
	worker := envInt("VERIF_WORKER", 0)
	start := envInt("VERIF_START", 0)
	maxRuns := envInt("VERIF_MAXRUNS", 1<<30)
	budget := time.Duration(envInt("VERIF_BUDGET_MS", 10000)) * time.Millisecond
	known := map[string]bool{}
	for _, k := range strings.Split(os.Getenv("VERIF_KNOWN"), "\x1f") {
		if k != "" {
			known[k] = true
		}
	}
	wo := &WorkerOut{Prop: prop, Tier: tier, Worker: worker, Fired: map[string]int{}, Probes: map[string]int{}, Evals: map[string]int{}, Failures: map[string]*failGroup{}, Gauges: map[string]int{}}
	hashes := map[uint64]bool{}
	firstFail := os.Getenv("VERIF_FIRST_FAIL") != ""
	t0 := time.Now()
	baseG := runtime.NumGoroutine()
	i := start
	for ; i < start+maxRuns; i++ {
		if time.Since(t0) > budget {
			break
		}
		if runtime.NumGoroutine()-baseG > 3000 {
			break // leaked (stuck) goroutines of earlier runs: let the driver start a fresh process
		}
		seed := mix(master, prop, tier, strconv.Itoa(worker), strconv.Itoa(i))
		if e := os.Getenv("VERIF_RUNSEED"); e != "" {
			seed, _ = strconv.ParseUint(e, 10, 64)
		}
		nw := envInt("VERIF_NWORKERS", 1)
		index := i*nw + worker
		if sc.FixedSeed != nil && os.Getenv("VERIF_RUNSEED") == "" {
			if fs, ok := sc.FixedSeed(tier, index, master); ok {
				seed = fs
			}
		}
		tRun := time.Now()
		r := execRun(t, sc, tier, seed, index, nil)
		slow := time.Since(tRun) > 3*time.Second // too expensive to re-execute hundreds of times
		wo.Runs++
		wo.SimNS += r.SimNS
		wo.Steps += int64(r.Steps)
		wo.Decisions += int64(r.Decisions)
		wo.Preemptions += int64(r.Preemptions)
		mergeCounts(wo.Fired, r.Fired)
		mergeCounts(wo.Probes, r.Probes)
		mergeCounts(wo.Evals, r.Evals)
		for k, v := range r.Gauges {
			if v > wo.Gauges[k] {
				wo.Gauges[k] = v
			}
		}
		if r.Nontrivial {
			wo.Nontrivial++
			hashes[r.CaseHash] = true
		}
		if len(r.Infra) > 0 && len(wo.Infra) < 5 {
			wo.Infra = append(wo.Infra, fmt.Sprintf("seed=%d: %s", seed, strings.Join(r.Infra, " | ")))
		}
		if _, stop := r.Probes["space-exhausted"]; stop {
			wo.Exhausted = true
		}
		// determinism sample: same seed again must give the same event log
		if !slow && ((i-start) < 3 || (i-start)%400 == 0) {
			r2 := execRun(t, sc, tier, seed, index, nil)
			wo.DetChecked++
			if r2.LogHash != r.LogHash || failSigs(r2) != failSigs(r) || r2.Steps != r.Steps {
				if len(wo.DetMismatch) < 5 {
					wo.DetMismatch = append(wo.DetMismatch, fmt.Sprintf("seed=%d log %x/%x steps %d/%d fails %q/%q", seed, r.LogHash, r2.LogHash, r.Steps, r2.Steps, failSigs(r), failSigs(r2)))
				}
			}
		}
		if len(wo.Samples) < 3 && (r.Nontrivial || i-start > 20) {
			s := r
			s.Draws = nil
			if len(s.Trace) > 40 {
				s.Trace = s.Trace[:40]
			}
			wo.Samples = append(wo.Samples, s)
		}
		for _, f := range r.Fails {
			g := wo.Failures[f.Sig]
			if g == nil {
				g = &failGroup{Sig: f.Sig, Clause: f.Clause, Known: known[f.Sig]}
				wo.Failures[f.Sig] = g
				if !g.Known && len(wo.Failures) <= 6 && !slow {
					g.Replay = minimise(t, sc, tier, index, r, f.Sig)
				} else {
					g.Replay = &Replay{Property: prop, Tier: tier, Seed: seed, Index: index, Clause: f.Clause, Sig: f.Sig, Msg: f.Msg, LogHash: r.LogHash, Desc: r.Desc, Trace: r.Trace, Fired: r.Fired}
				}
			}
			g.Count++
			if len(g.Seeds) < 5 {
				g.Seeds = append(g.Seeds, seed)
			}
		}
		if wo.Exhausted || os.Getenv("VERIF_RUNSEED") != "" {
			i++
			break
		}
		// sensitivity runs (bin/seeded-matrix --first): the first violation that is not a recorded finding ends the worker
		if firstFail && unknownFailure(wo) {
			i++
			break
		}
	}
	wo.NextIndex = i
	wo.WallS = time.Since(t0).Seconds()
	for h := range hashes {
		wo.Hashes = append(wo.Hashes, strconv.FormatUint(h, 16))
	}
	writeJSON(t, out, wo)
}

func unknownFailure(wo *WorkerOut) bool {
	for _, g := range wo.Failures {
		if !g.Known {
			return true
		}
	}
	return false
}

func writeJSON(t *testing.T, path string, v any) {
	b, err := json.Marshal(v)
	if err != nil {
		t.Fatal(err)
	}
	if path == "" {
		os.Stdout.Write(append(b, '\n'))
		return
	}
	if err := os.WriteFile(path, b, 0o644); err != nil {
		t.Fatal(err)
	}
}

// runReplay re-executes exactly the run of a replay file and reports whether
// the same violation (signature) and the same event log were reproduced.
func runReplay(t *testing.T, sc *Scenario, path, out string) {
	b, err := os.ReadFile(path)
	if err != nil {
		t.Fatal(err)
	}
	var rp Replay
	if err := json.Unmarshal(b, &rp); err != nil {
		t.Fatal(err)
	}
	tier := rp.Tier
	if tier == "" {
		tier = "quick"
	}
	r := execRun(t, sc, tier, rp.Seed, rp.Index, rp.Overrides)
	res := map[string]any{
		"property": rp.Property, "sig": rp.Sig, "reproduced": hasSig(r, rp.Sig),
		"log_hash_expected": rp.LogHash, "log_hash": r.LogHash, "same_log": r.LogHash == rp.LogHash,
		"fails": r.Fails, "infra": r.Infra, "desc": r.Desc, "trace": r.Trace,
	}
	writeJSON(t, out, res)
}
