package harness

import "testing"

// TestWorker is the entry point of a worker process (see bin/check).
func TestWorker(t *testing.T) { RunWorker(t) }
