// Command instr rewrites a scratch copy of the module in place so that every
// synchronisation operation becomes a scheduling point of verif.sim/simrt
// (DESIGN.md §2.2). usage: instr <dir> [patterns...]
package main

import (
	"bytes"
	"fmt"
	"go/ast"
	"go/format"
	"go/parser"
	"go/printer"
	"go/token"
	"go/types"
	"os"
	"path/filepath"
	"strconv"
	"strings"

	"golang.org/x/tools/go/ast/astutil"
	"golang.org/x/tools/go/packages"
)

const rtPath = "verif.sim/simrt"
const syncPath = "verif.sim/simrt/simsync"

type stats struct{ gos, selects, singleSelects, chanops, mapranges, chanranges, syncImports, unhandled, cancels, closes, dense, resets int }

var st stats

func main() {
	dir, err0 := filepath.Abs(os.Args[1])
	if err0 != nil {
		fmt.Fprintln(os.Stderr, err0)
		os.Exit(2)
	}
	pats := os.Args[2:]
	if len(pats) == 0 {
		pats = []string{"./..."}
	}
	cfg := &packages.Config{Mode: packages.NeedName | packages.NeedFiles | packages.NeedCompiledGoFiles | packages.NeedSyntax | packages.NeedTypes | packages.NeedTypesInfo | packages.NeedImports | packages.NeedDeps, Dir: dir}
	pkgs, err := packages.Load(cfg, pats...)
	if err != nil {
		fmt.Fprintln(os.Stderr, "load:", err)
		os.Exit(2)
	}
	for _, p := range pkgs {
		if len(p.Errors) > 0 {
			for _, e := range p.Errors {
				fmt.Fprintln(os.Stderr, "pkg error:", e)
			}
			os.Exit(2)
		}
		for i, f := range p.Syntax {
			name := p.CompiledGoFiles[i]
			if strings.HasSuffix(name, "_test.go") {
				continue
			}
			in := &inst{pkg: p, file: f, fset: p.Fset, rel: rel(dir, name), closeStmts: map[*ast.ExprStmt]bool{}, noDense: os.Getenv("VERIF_NO_DENSE") != ""}
			in.run()
			var buf bytes.Buffer
			if err := format.Node(&buf, p.Fset, f); err != nil {
				fmt.Fprintln(os.Stderr, "print", name, err)
				os.Exit(2)
			}
			if err := os.WriteFile(name, buf.Bytes(), 0o644); err != nil {
				fmt.Fprintln(os.Stderr, err)
				os.Exit(2)
			}
		}
	}
	fmt.Printf("instr: go=%d select=%d single_select=%d chanop=%d maprange=%d chanrange=%d syncimports=%d cancels=%d closes=%d dense=%d resets=%d unhandled=%d\n", st.gos, st.selects, st.singleSelects, st.chanops, st.mapranges, st.chanranges, st.syncImports, st.cancels, st.closes, st.dense, st.resets, st.unhandled)
}

func rel(dir, name string) string {
	r, err := filepath.Rel(dir, name)
	if err != nil {
		return name
	}
	return r
}

type inst struct {
	pkg    *packages.Package
	file   *ast.File
	fset   *token.FileSet
	rel    string
	n      int
	needRT bool
	noDense bool
	denseAll map[ast.Stmt]bool
	closeStmts map[*ast.ExprStmt]bool
}

func (in *inst) tmp(p string) string { in.n++; return fmt.Sprintf("__%s%d", p, in.n) }

func (in *inst) site(n ast.Node) string {
	return strconv.Quote(fmt.Sprintf("%s:%d", in.rel, in.fset.Position(n.Pos()).Line))
}

func (in *inst) str(n ast.Node) string {
	var b bytes.Buffer
	if err := printer.Fprint(&b, in.fset, n); err != nil {
		panic(err)
	}
	return b.String()
}

func (in *inst) stmts(src string) []ast.Stmt {
	f, err := parser.ParseFile(token.NewFileSet(), "", "package p\nfunc _(){\n"+src+"\n}", 0)
	if err != nil {
		panic(fmt.Sprintf("generated code does not parse: %v\n%s", err, src))
	}
	body := f.Decls[0].(*ast.FuncDecl).Body.List
	// strip positions so the printer lays the code out afresh
	for _, s := range body {
		ast.Inspect(s, func(n ast.Node) bool { return true })
	}
	return body
}

func (in *inst) block(src string) *ast.BlockStmt { return &ast.BlockStmt{List: in.stmts(src)} }

func (in *inst) isCancelFunc(e ast.Expr) bool {
	t := in.typeOf(e)
	if t == nil {
		return false
	}
	n, ok := t.(*types.Named)
	if !ok {
		if a, isAlias := t.(*types.Alias); isAlias {
			n, ok = types.Unalias(a).(*types.Named)
		}
	}
	if !ok || n.Obj() == nil || n.Obj().Pkg() == nil {
		return false
	}
	return n.Obj().Pkg().Path() == "context" && n.Obj().Name() == "CancelFunc"
}

func (in *inst) isConst(e ast.Expr) bool {
	tv, ok := in.pkg.TypesInfo.Types[e]
	return ok && tv.Value != nil
}

func (in *inst) typeOf(e ast.Expr) types.Type {
	if tv, ok := in.pkg.TypesInfo.Types[e]; ok {
		return tv.Type
	}
	return nil
}

// rule 8: package-level containers (channels, slices, maps, and unexported struct or pointer-to-struct variables built from
// a composite literal) are put back to their initial value at the start of every run: a free list, cache or scratch buffer
// at package level otherwise carries objects from one simulated run into the next one of the same worker process, and a
// failure that involves it would neither replay from its seed nor count as deterministic. Variables that an init function
// of the package mentions (registries filled at start-up), embedded files and initialisers that call anything but make/new
// are left alone.
func (in *inst) resets() []string {
	inInit := map[types.Object]bool{}
	for _, f := range in.pkg.Syntax {
		for _, d := range f.Decls {
			fd, ok := d.(*ast.FuncDecl)
			if !ok || fd.Recv != nil || fd.Name.Name != "init" || fd.Body == nil {
				continue
			}
			ast.Inspect(fd.Body, func(n ast.Node) bool {
				if id, ok := n.(*ast.Ident); ok {
					if o := in.pkg.TypesInfo.Uses[id]; o != nil {
						inInit[o] = true
					}
				}
				return true
			})
		}
	}
	simpleInit := func(e ast.Expr) bool {
		ok := true
		ast.Inspect(e, func(n ast.Node) bool {
			switch x := n.(type) {
			case *ast.FuncLit:
				ok = false
			case *ast.CallExpr:
				id, isID := x.Fun.(*ast.Ident)
				_, conv := in.pkg.TypesInfo.Types[x.Fun]
				if isID && (id.Name == "make" || id.Name == "new") {
					return true
				}
				if conv && in.pkg.TypesInfo.Types[x.Fun].IsType() {
					return true
				}
				ok = false
			}
			return ok
		})
		return ok
	}
	var out []string
	for _, d := range in.file.Decls {
		gd, ok := d.(*ast.GenDecl)
		if !ok || gd.Tok != token.VAR {
			continue
		}
		raw := func(cg *ast.CommentGroup) string {
			var sb strings.Builder
			if cg != nil {
				for _, c := range cg.List {
					sb.WriteString(c.Text + "\n")
				}
			}
			return sb.String()
		}
		if strings.Contains(raw(gd.Doc), "go:") {
			continue
		}
		for _, sp := range gd.Specs {
			vs := sp.(*ast.ValueSpec)
			if strings.Contains(raw(vs.Doc), "go:") {
				continue
			}
			if len(vs.Values) != 0 && len(vs.Values) != len(vs.Names) {
				continue
			}
			for i, name := range vs.Names {
				if name.Name == "_" {
					continue
				}
				obj, _ := in.pkg.TypesInfo.Defs[name].(*types.Var)
				if obj == nil || inInit[obj] {
					continue
				}
				container := false
				switch t := obj.Type().Underlying().(type) {
				case *types.Chan, *types.Slice, *types.Map:
					container = true
				case *types.Struct:
					container = !name.IsExported() && len(vs.Values) > 0
				case *types.Pointer:
					_, isStruct := t.Elem().Underlying().(*types.Struct)
					container = isStruct && !name.IsExported() && len(vs.Values) > 0
				}
				if !container {
					continue
				}
				if len(vs.Values) == 0 {
					if _, isStruct := obj.Type().Underlying().(*types.Struct); isStruct {
						continue
					}
					out = append(out, name.Name+" = nil")
					continue
				}
				if !simpleInit(vs.Values[i]) {
					continue
				}
				out = append(out, name.Name+" = "+in.str(vs.Values[i]))
			}
		}
	}
	return out
}

func (in *inst) run() {
	resets := in.resets()
	// drop comments except those before the package clause (build constraints)
	var keep []*ast.CommentGroup
	for _, cg := range in.file.Comments {
		if cg.End() < in.file.Package {
			keep = append(keep, cg)
		}
	}
	in.file.Comments = keep
	ast.Inspect(in.file, func(n ast.Node) bool {
		switch x := n.(type) {
		case *ast.FuncDecl:
			x.Doc = nil
		case *ast.GenDecl:
			x.Doc = nil
		case *ast.Field:
			x.Doc, x.Comment = nil, nil
		case *ast.TypeSpec:
			x.Doc, x.Comment = nil, nil
		case *ast.ValueSpec:
			x.Doc, x.Comment = nil, nil
		case *ast.ImportSpec:
			x.Doc, x.Comment = nil, nil
		}
		return true
	})

	// sync import substitution
	for _, imp := range in.file.Imports {
		if imp.Path.Value == `"sync"` {
			imp.Path.Value = strconv.Quote(syncPath)
			if imp.Name == nil {
				imp.Name = ast.NewIdent("sync")
			}
			st.syncImports++
		}
	}

	in.markDenseFuncs()
	astutil.Apply(in.file, nil, func(c *astutil.Cursor) bool {
		in.denseStmt(c)
		switch n := c.Node().(type) {
		case *ast.GoStmt:
			in.goStmt(c, n)
		case *ast.SelectStmt:
			if _, ok := c.Parent().(*ast.LabeledStmt); ok {
				return true // handled at the LabeledStmt
			}
			if r := in.selectStmt(n, ""); r != nil {
				c.Replace(r)
			} else {
				in.singleSelect(c, n)
			}
		case *ast.LabeledStmt:
			if s, ok := n.Stmt.(*ast.SelectStmt); ok {
				if r := in.selectStmt(s, n.Label.Name); r != nil {
					c.Replace(r)
				}
			}
		case *ast.SendStmt:
			if _, ok := c.Parent().(*ast.CommClause); ok {
				return true
			}
			in.around(c, n)
		case *ast.ExprStmt:
			if _, ok := c.Parent().(*ast.CommClause); ok {
				return true
			}
			if isRecv(n.X) {
				in.around(c, n)
			}
		case *ast.AssignStmt:
			if _, ok := c.Parent().(*ast.CommClause); ok {
				return true
			}
			if len(n.Rhs) == 1 && isRecv(n.Rhs[0]) {
				in.around(c, n)
			}
		case *ast.RangeStmt:
			in.rangeStmt(c, n)
		case *ast.CallExpr:
			// rule 6: a call of a context.CancelFunc closes a channel inside the standard library, where no yield can be
			// inserted. A goroutine blocked in a real select on that channel and on another one that the same task makes
			// ready before it parks again would be resumed by the Go runtime with BOTH ready - and the runtime picks the
			// clause at random. The call is therefore followed by a yield: everything it woke has parked again (at its
			// post-wake yield) before the caller goes on. The same holds for close(ch) statements.
			if in.isCancelFunc(n.Fun) && len(n.Args) == 0 {
				in.needRT = true
				st.cancels++
				c.Replace(&ast.CallExpr{Fun: &ast.SelectorExpr{X: ast.NewIdent("simrt"), Sel: ast.NewIdent("Settle")}, Args: []ast.Expr{n.Fun, &ast.BasicLit{Kind: token.STRING, Value: in.site(n)}}})
			} else if id, ok := n.Fun.(*ast.Ident); ok && id.Name == "close" && len(n.Args) == 1 {
				if _, isBuiltin := in.pkg.TypesInfo.Uses[id].(*types.Builtin); isBuiltin {
					if es, ok := c.Parent().(*ast.ExprStmt); ok && es.X == n {
						// handled when the enclosing statement is visited (post-order: the parent comes next)
						in.closeStmts[es] = true
					}
				}
			}
		}
		if es, ok := c.Node().(*ast.ExprStmt); ok && in.closeStmts[es] && inList(c) {
			in.needRT = true
			st.closes++
			c.InsertAfter(in.stmts("simrt.Yield(" + in.site(es) + ")")[0])
		}
		return true
	})
	if len(resets) > 0 {
		in.needRT = true
		st.resets += len(resets)
		f, err := parser.ParseFile(token.NewFileSet(), "", "package p\nfunc init() {\nsimrt.RegisterReset(func() {\n"+strings.Join(resets, "\n")+"\n})\n}", 0)
		if err != nil {
			panic(fmt.Sprintf("generated code does not parse: %v", err))
		}
		in.file.Decls = append(in.file.Decls, f.Decls[0])
	}
	if in.needRT {
		astutil.AddNamedImport(in.fset, in.file, "simrt", rtPath)
	}
}

// rule 7: statement-level preemption points. A store to memory that another goroutine may see (field, element,
// dereference, package-level variable), a condition that reads such memory, delete/copy and every loop body get a
// simrt.Dense call in front: a no-op unless the run armed it, then a forced preemption. This makes check-then-act
// sequences on unlocked state, critical sections whose lock was dropped and scratch buffers shared between callers
// interleavable, which yields at synchronisation operations alone never do.
func (in *inst) denseStmt(c *astutil.Cursor) {
	if in.noDense {
		return
	}
	node := c.Node()
	switch n := node.(type) {
	case *ast.ForStmt:
		in.denseBody(n.Body, n)
		return
	case *ast.RangeStmt:
		in.denseBody(n.Body, n)
		return
	}
	if !inList(c) {
		return
	}
	if _, ok := c.Parent().(*ast.CommClause); ok {
		// bodies of select clauses are moved by the select rewrite; their statements are handled like any other
	}
	hit := false
	switch n := node.(type) {
	case *ast.AssignStmt:
		if n.Tok != token.DEFINE {
			for _, l := range n.Lhs {
				if in.sharedLoc(l) {
					hit = true
				}
			}
		}
	case *ast.IncDecStmt:
		hit = in.sharedLoc(n.X)
	case *ast.IfStmt:
		hit = in.readsShared(n.Cond)
	case *ast.ExprStmt:
		if call, ok := n.X.(*ast.CallExpr); ok {
			if id, ok := call.Fun.(*ast.Ident); ok && (id.Name == "delete" || id.Name == "copy") {
				if _, isBuiltin := in.pkg.TypesInfo.Uses[id].(*types.Builtin); isBuiltin {
					hit = true
				}
			}
		}
	}
	if stmt, ok := node.(ast.Stmt); ok && in.denseAll[stmt] {
		hit = true
	}
	if !hit {
		return
	}
	in.needRT = true
	st.dense++
	c.InsertBefore(in.stmts("simrt.Dense(" + in.site(node) + ")")[0])
}

// markDenseFuncs: in a function that touches mutable package-level state (a variable of the package that is not an
// error value or a function) every statement is a preemption point: what such a function keeps in locals is often an
// alias of that state (a scratch buffer, a free list, a cache), which a syntactic look at single statements cannot see.
func (in *inst) markDenseFuncs() {
	in.denseAll = map[ast.Stmt]bool{}
	touches := func(body *ast.BlockStmt) bool {
		found := false
		ast.Inspect(body, func(n ast.Node) bool {
			if found {
				return false
			}
			id, ok := n.(*ast.Ident)
			if !ok {
				return true
			}
			v, ok := in.pkg.TypesInfo.Uses[id].(*types.Var)
			if !ok || v.Parent() != in.pkg.Types.Scope() {
				return true
			}
			switch v.Type().Underlying().(type) {
			case *types.Interface, *types.Signature:
				return true
			}
			found = true
			return false
		})
		return found
	}
	mark := func(body *ast.BlockStmt) {
		ast.Inspect(body, func(n ast.Node) bool {
			if _, ok := n.(*ast.FuncLit); ok {
				return false
			}
			if st, ok := n.(ast.Stmt); ok {
				switch st.(type) {
				case *ast.BlockStmt, *ast.LabeledStmt, *ast.CaseClause, *ast.CommClause, *ast.EmptyStmt:
				default:
					in.denseAll[st] = true
				}
			}
			return true
		})
	}
	ast.Inspect(in.file, func(n ast.Node) bool {
		switch f := n.(type) {
		case *ast.FuncDecl:
			if f.Body != nil && f.Name.Name != "init" && touches(f.Body) {
				mark(f.Body)
			}
		case *ast.FuncLit:
			if touches(f.Body) {
				mark(f.Body)
			}
		}
		return true
	})
}

func (in *inst) denseBody(b *ast.BlockStmt, at ast.Node) {
	if b == nil {
		return
	}
	in.needRT = true
	st.dense++
	b.List = append(in.stmts("simrt.Dense("+in.site(at)+")"), b.List...)
}

// sharedLoc: the expression denotes memory that may be visible to another goroutine.
func (in *inst) sharedLoc(e ast.Expr) bool {
	switch x := e.(type) {
	case *ast.ParenExpr:
		return in.sharedLoc(x.X)
	case *ast.StarExpr, *ast.IndexExpr:
		return true
	case *ast.SelectorExpr:
		if sel, ok := in.pkg.TypesInfo.Selections[x]; ok {
			return sel.Kind() == types.FieldVal
		}
		// package-qualified variable of another package
		_, isVar := in.pkg.TypesInfo.Uses[x.Sel].(*types.Var)
		return isVar
	case *ast.Ident:
		if v, ok := in.pkg.TypesInfo.Uses[x].(*types.Var); ok && v.Parent() == in.pkg.Types.Scope() {
			return true
		}
	}
	return false
}

func (in *inst) readsShared(e ast.Expr) bool {
	found := false
	ast.Inspect(e, func(n ast.Node) bool {
		if found {
			return false
		}
		switch x := n.(type) {
		case *ast.FuncLit:
			return false
		case *ast.SelectorExpr:
			if sel, ok := in.pkg.TypesInfo.Selections[x]; ok && sel.Kind() == types.FieldVal {
				found = true
			}
		case *ast.IndexExpr, *ast.StarExpr:
			found = true
		case *ast.Ident:
			if v, ok := in.pkg.TypesInfo.Uses[x].(*types.Var); ok && v.Parent() == in.pkg.Types.Scope() {
				found = true
			}
		}
		return true
	})
	return found
}

// singleSelect adds yields around a select with at most one communication
// clause (deterministic already): blocking form gets Block/Woke, the form with
// a default clause a plain yield before it.
func (in *inst) singleSelect(c *astutil.Cursor, s *ast.SelectStmt) {
	if !inList(c) {
		st.unhandled++
		return
	}
	in.needRT = true
	st.singleSelects++
	site := in.site(s)
	hasDefault := false
	for _, cl := range s.Body.List {
		if cl.(*ast.CommClause).Comm == nil {
			hasDefault = true
		}
	}
	if hasDefault {
		c.InsertBefore(in.stmts("simrt.Yield(" + site + ")")[0])
		return
	}
	c.InsertBefore(in.stmts("simrt.Block(" + site + ")")[0])
	c.InsertAfter(in.stmts("simrt.Woke(" + site + ")")[0])
}

func isRecv(e ast.Expr) bool {
	for {
		p, ok := e.(*ast.ParenExpr)
		if !ok {
			break
		}
		e = p.X
	}
	u, ok := e.(*ast.UnaryExpr)
	return ok && u.Op == token.ARROW
}

func inList(c *astutil.Cursor) bool { return c.Index() >= 0 }

func (in *inst) around(c *astutil.Cursor, n ast.Stmt) {
	if !inList(c) {
		st.unhandled++
		return
	}
	in.needRT = true
	st.chanops++
	site := in.site(n)
	c.InsertBefore(in.stmts("simrt.Block(" + site + ")")[0])
	c.InsertAfter(in.stmts("simrt.Woke(" + site + ")")[0])
}

func (in *inst) goStmt(c *astutil.Cursor, g *ast.GoStmt) {
	in.needRT = true
	st.gos++
	var pre []string
	call := g.Call
	fun := in.str(call.Fun)
	if _, lit := call.Fun.(*ast.FuncLit); !lit {
		if _, id := call.Fun.(*ast.Ident); !id {
			f := in.tmp("f")
			pre = append(pre, f+" := "+fun)
			fun = f
		}
	} else {
		fun = "(" + fun + ")"
	}
	var args []string
	for _, a := range call.Args {
		if in.isConst(a) {
			args = append(args, in.str(a))
			continue
		}
		t := in.tmp("a")
		pre = append(pre, t+" := "+in.str(a))
		args = append(args, t)
	}
	ell := ""
	if call.Ellipsis.IsValid() {
		ell = "..."
	}
	src := strings.Join(pre, "\n") + "\nsimrt.Go(" + in.site(g) + ", func() { " + fun + "(" + strings.Join(args, ", ") + ell + ") })"
	c.Replace(in.block(src))
}

func (in *inst) rangeStmt(c *astutil.Cursor, r *ast.RangeStmt) {
	t := in.typeOf(r.X)
	if t == nil {
		return
	}
	switch t.Underlying().(type) {
	case *types.Chan:
		in.needRT = true
		st.chanranges++
		site := in.site(r)
		r.Body.List = append(in.stmts("simrt.Woke("+site+")"), r.Body.List...)
		if inList(c) {
			c.InsertAfter(in.stmts("simrt.Woke(" + site + ")")[0])
		}
	case *types.Map:
		in.needRT = true
		st.mapranges++
		m := in.tmp("m")
		k := in.tmp("k")
		keyName, valName := "_", "_"
		if r.Key != nil {
			keyName = in.str(r.Key)
		}
		if r.Value != nil {
			valName = in.str(r.Value)
		}
		tok := r.Tok.String() // := or = or ILLEGAL(no vars)
		var head string
		if r.Key == nil && r.Value == nil {
			head = fmt.Sprintf("if _, __ok := %s[%s]; !__ok { continue }", m, k)
		} else if tok == ":=" {
			head = fmt.Sprintf("%s, __ok := %s[%s]\nif !__ok { continue }\n", "__v", m, k)
			if keyName != "_" {
				head += keyName + " := " + k + "\n_ = " + keyName + "\n"
			}
			if valName != "_" {
				head += valName + " := __v\n_ = " + valName + "\n"
			} else {
				head += "_ = __v\n"
			}
		} else {
			head = fmt.Sprintf("__v, __ok := %s[%s]\nif !__ok { continue }\n", m, k)
			if keyName != "_" {
				head += keyName + " = " + k + "\n"
			}
			if valName != "_" {
				head += valName + " = __v\n"
			} else {
				head += "_ = __v\n"
			}
		}
		loop := in.stmts(fmt.Sprintf("%s := %s\nfor _, %s := range simrt.MapKeys(%s) {\n%s\n}", m, in.str(r.X), k, m, head))
		fs := loop[1].(*ast.RangeStmt)
		fs.Body.List = append(fs.Body.List, r.Body.List...)
		// keep a label if the range was labelled: the parent handles labels, we replace in place
		if _, ok := c.Parent().(*ast.LabeledStmt); ok {
			// hoist the map temp into the loop header instead
			loop2 := in.stmts(fmt.Sprintf("for _, %s := range simrt.MapKeys(%s) {\n%s\n}", k, in.str(r.X), strings.ReplaceAll(head, m+"[", "("+in.str(r.X)+")[")))
			fs2 := loop2[0].(*ast.RangeStmt)
			fs2.Body.List = append(fs2.Body.List, r.Body.List...)
			c.Replace(fs2)
			return
		}
		c.Replace(&ast.BlockStmt{List: loop})
	}
}

// selectStmt rewrites a select with >= 2 communication clauses.
func (in *inst) selectStmt(s *ast.SelectStmt, label string) ast.Stmt {
	type clause struct {
		cc      *ast.CommClause
		send    bool
		ch, val string // hoisted names
		bind    string // statement(s) binding received values in the body
		recvTmp bool
	}
	var cls []*clause
	var def *ast.CommClause
	for _, st := range s.Body.List {
		cc := st.(*ast.CommClause)
		if cc.Comm == nil {
			def = cc
			continue
		}
		cls = append(cls, &clause{cc: cc})
	}
	site := in.site(s)
	if len(cls) < 2 {
		// deterministic already: only add yields (blocking form gets Block/Woke)
		return nil
	}
	st.selects++
	in.needRT = true
	var pre, poll, blocking, sw []string
	for i, cl := range cls {
		idx := strconv.Itoa(i)
		switch c := cl.cc.Comm.(type) {
		case *ast.SendStmt:
			cl.send = true
			cl.ch = in.tmp("c")
			pre = append(pre, cl.ch+" := "+in.str(c.Chan))
			if in.isConst(c.Value) || isSimple(c.Value) {
				cl.val = in.str(c.Value)
			} else {
				cl.val = in.tmp("x")
				pre = append(pre, cl.val+" := "+in.str(c.Value))
			}
			poll = append(poll, fmt.Sprintf("case simrt.SendIf(%s, __i == %s) <- %s: __f = %s", cl.ch, idx, cl.val, idx))
			blocking = append(blocking, fmt.Sprintf("case %s <- %s: __f = %s", cl.ch, cl.val, idx))
		case *ast.ExprStmt:
			cl.ch = in.tmp("c")
			pre = append(pre, cl.ch+" := "+in.str(recvChan(c.X)))
			poll = append(poll, fmt.Sprintf("case <-simrt.RecvIf(%s, __i == %s): __f = %s", cl.ch, idx, idx))
			blocking = append(blocking, fmt.Sprintf("case <-%s: __f = %s", cl.ch, idx))
		case *ast.AssignStmt:
			cl.ch = in.tmp("c")
			pre = append(pre, cl.ch+" := "+in.str(recvChan(c.Rhs[0])))
			v, ok := in.tmp("v"), in.tmp("ok")
			pre = append(pre, fmt.Sprintf("%s, %s := simrt.Zero(%s)\n_, _ = %s, %s", v, ok, cl.ch, v, ok))
			poll = append(poll, fmt.Sprintf("case %s, %s = <-simrt.RecvIf(%s, __i == %s): __f = %s", v, ok, cl.ch, idx, idx))
			blocking = append(blocking, fmt.Sprintf("case %s, %s = <-%s: __f = %s", v, ok, cl.ch, idx))
			lhs := make([]string, len(c.Lhs))
			for j, l := range c.Lhs {
				lhs[j] = in.str(l)
			}
			rhs := v
			if len(lhs) == 2 {
				rhs = v + ", " + ok
			}
			cl.bind = strings.Join(lhs, ", ") + " " + c.Tok.String() + " " + rhs
			if c.Tok == token.DEFINE {
				for _, l := range lhs {
					if l != "_" {
						cl.bind += "\n_ = " + l
					}
				}
			}
		default:
			panic("unknown comm")
		}
		if i == len(cls)-1 && def == nil {
			sw = append(sw, fmt.Sprintf("default:\n%s\n", cl.bind))
		} else {
			sw = append(sw, fmt.Sprintf("case %s:\n%s\n", idx, cl.bind))
		}
	}
	defIdx := strconv.Itoa(len(cls))
	var src bytes.Buffer
	// the scheduling point (inside simrt.SelectOrder) comes BEFORE the seeded poll, and nothing yields between the poll and the real blocking
	// select: a yield in between would let other tasks make two clauses ready, and the real select would then be
	// entered with both ready and resolved by the Go runtime's random choice
	src.WriteString(strings.Join(pre, "\n") + "\n__f := -1\n")
	fmt.Fprintf(&src, "for _, __i := range simrt.SelectOrder(%s, %d) {\nselect {\n%s\ndefault:\n}\nif __f >= 0 { break }\n}\n", site, len(cls), strings.Join(poll, "\n"))
	if def != nil {
		fmt.Fprintf(&src, "if __f < 0 { __f = %s }\n", defIdx)
		sw = append(sw, "default:\n")
	} else {
		fmt.Fprintf(&src, "if __f < 0 {\nsimrt.MarkBlocked(%s)\nselect {\n%s\n}\nsimrt.Woke(%s)\n}\n", site, strings.Join(blocking, "\n"), site)
	}
	fmt.Fprintf(&src, "switch __f {\n%s}\n", strings.Join(sw, ""))
	list := in.stmts(src.String())
	swStmt := list[len(list)-1].(*ast.SwitchStmt)
	for i, cl := range cls {
		cc := swStmt.Body.List[i].(*ast.CaseClause)
		cc.Body = append(cc.Body, cl.cc.Body...)
	}
	if def != nil {
		cc := swStmt.Body.List[len(cls)].(*ast.CaseClause)
		cc.Body = append(cc.Body, def.Body...)
	}
	blk := &ast.BlockStmt{List: list}
	if label == "" {
		return blk
	}
	// label: on the switch if some body breaks to it, otherwise on the block (goto target)
	usesBreak := false
	ast.Inspect(s, func(n ast.Node) bool {
		if b, ok := n.(*ast.BranchStmt); ok && b.Tok == token.BREAK && b.Label != nil && b.Label.Name == label {
			usesBreak = true
		}
		return true
	})
	if usesBreak {
		list[len(list)-1] = &ast.LabeledStmt{Label: ast.NewIdent(label), Stmt: swStmt}
		return blk
	}
	return &ast.LabeledStmt{Label: ast.NewIdent(label), Stmt: blk}
}

func isSimple(e ast.Expr) bool {
	switch x := e.(type) {
	case *ast.Ident, *ast.BasicLit:
		return true
	case *ast.SelectorExpr:
		return isSimple(x.X)
	case *ast.CompositeLit:
		return len(x.Elts) == 0
	}
	return false
}

func recvChan(e ast.Expr) ast.Expr {
	for {
		p, ok := e.(*ast.ParenExpr)
		if !ok {
			break
		}
		e = p.X
	}
	return e.(*ast.UnaryExpr).X
}
