package simrt

import (
	"hash/fnv"
	"math/rand/v2"
	"sort"
)

// Chooser is the single source of every nondeterministic decision of a run.
// It holds labelled streams, each with its own PRNG derived from the run seed
// and the label, a record of the draws made and an optional override list
// (replay / minimisation): draw i of a stream with an override list takes
// override[i] (mod n) and, beyond the end of the list, 0 -- the "simplest"
// value (keep running the same task, no fault, smallest operation).
type Chooser struct {
	Seed      uint64
	streams   map[string]*stream
	Overrides map[string][]int
}

type stream struct {
	rng   *rand.Rand
	draws []int
	over  []int
	has   bool
}

// NewChooser returns a chooser for one run.
func NewChooser(seed uint64, overrides map[string][]int) *Chooser {
	return &Chooser{Seed: seed, streams: map[string]*stream{}, Overrides: overrides}
}

func (c *Chooser) stream(label string) *stream {
	s := c.streams[label]
	if s == nil {
		h := fnv.New64a()
		h.Write([]byte(label))
		s = &stream{rng: rand.New(rand.NewPCG(c.Seed, h.Sum64()))}
		if c.Overrides != nil {
			s.over, s.has = c.Overrides[label]
		}
		c.streams[label] = s
	}
	return s
}

// Int draws a value in [0,n) from the labelled stream.
func (c *Chooser) Int(label string, n int) int {
	if n <= 1 {
		return 0
	}
	s := c.stream(label)
	var v int
	if s.has {
		if i := len(s.draws); i < len(s.over) {
			v = s.over[i] % n
			if v < 0 {
				v = -v
			}
		}
	} else {
		v = s.rng.IntN(n)
	}
	s.draws = append(s.draws, v)
	return v
}

// Chance is true with probability num/den (false for a zero draw, so that the
// minimiser's "0" means "did not happen").
func (c *Chooser) Chance(label string, num, den int) bool {
	return c.Int(label, den) >= den-num
}

// Range draws in [lo,hi].
func (c *Chooser) Range(label string, lo, hi int) int {
	if hi <= lo {
		return lo
	}
	return lo + c.Int(label, hi-lo+1)
}

// Perm returns a permutation of 0..n-1 (identity for all-zero draws).
func (c *Chooser) Perm(label string, n int) []int {
	p := make([]int, n)
	for i := range p {
		p[i] = i
	}
	for i := 0; i < n-1; i++ {
		j := i + c.Int(label, n-i)
		p[i], p[j] = p[j], p[i]
	}
	return p
}

// Draws returns the record of all draws made, per stream.
func (c *Chooser) Draws() map[string][]int {
	out := map[string][]int{}
	for k, s := range c.streams {
		out[k] = append([]int(nil), s.draws...)
	}
	return out
}

// Labels returns the stream labels in sorted order.
func (c *Chooser) Labels() []string {
	var l []string
	for k := range c.streams {
		l = append(l, k)
	}
	sort.Strings(l)
	return l
}
