module verif.sim/simrt

go 1.26.8
