// Package simnet is the simulated transport: an in-memory duplex byte pipe
// whose every wait is a scheduler predicate, whose deadlines run on the fake
// clock, and which injects short reads, latency, stalls, cuts, failing reads
// and writes and back-pressure according to a fault plan. Every fault kind is
// counted when it fires.
package simnet

import (
	"errors"
	"fmt"
	"io"
	"net"
	"os"
	"syscall"
	"time"

	"verif.sim/simrt"
)

type seg struct {
	data []byte
	at   time.Time
}

// TapEvent records bytes written on a direction with the scheduler step.
type TapEvent struct {
	Step int
	N    int
}

// Dir is one direction of a pipe.
type Dir struct {
	name    string
	segs    []seg
	closedW bool // writer closed: reader drains, then io.EOF
	closedR bool // reader closed: writer gets EPIPE

	// Tap is every byte accepted from the writer (delivered or not).
	Tap    []byte
	Events []TapEvent
	// Delivered counts bytes handed to the reader.
	Delivered int

	// fault plan
	CutAt     int   // after this many bytes written the direction is cut (-1: never)
	CutErr    error // what the reader sees after draining the prefix (nil: io.EOF)
	CutSilent bool  // true: the writer does not notice (bytes lost in flight); false: EPIPE
	cut       bool
	StallAt   int // from this many delivered bytes on nothing is delivered (-1: never) …
	StallFor  time.Duration
	stallEnd  time.Time // … until this instant (zero: not started; far future: forever)
	stalled   bool
	Cap       int // bounded buffer (0: unlimited): Write blocks while full
	Latency   func() time.Duration
	queued    int // bytes written and not yet read
}

func (d *Dir) buffered() int { return d.queued }

// Net groups the pipes of one run and owns counters.
type Net struct {
	S     *simrt.Sched
	Fired map[string]int
	Chunk func() int // max bytes per Read (0: unlimited)
}

func NewNet(s *simrt.Sched) *Net { return &Net{S: s, Fired: map[string]int{}} }

func (n *Net) fire(kind string) { n.Fired[kind]++ }

// Conn is one end of a pipe; it implements net.Conn.
type Conn struct {
	net    *Net
	name   string
	rd, wr *Dir
	rdl    time.Time
	wdl    time.Time
	closed bool

	Reads, Writes int
	// fault plan of this end
	ReadErrAt       int // the n-th Read call (1-based) fails; 0: never
	ReadErr         error
	ReadErrOnce     bool
	WriteErrAt      int // the n-th Write call fails after WritePartial bytes; 0: never
	WriteErr        error
	WriteErrOnce    bool
	WritePartial    int
	DeadlineCalls   int
	inRead, inWrite bool
	rdKick, wrKick  bool // a past deadline was set while an I/O call was pending (real conns fail that call even if the deadline is cleared right after)
}

type addr string

func (a addr) Network() string { return "sim" }
func (a addr) String() string  { return string(a) }

// Pipe returns the two ends of a new pipe.
func (n *Net) Pipe(a, b string) (*Conn, *Conn) {
	ab := &Dir{name: a + ">" + b, CutAt: -1, StallAt: -1}
	ba := &Dir{name: b + ">" + a, CutAt: -1, StallAt: -1}
	return &Conn{net: n, name: a, rd: ba, wr: ab}, &Conn{net: n, name: b, rd: ab, wr: ba}
}

// Out is the direction this end writes to; In the one it reads from.
// ReadIdle reports whether a Read is waiting on this end with nothing written towards it left unread: whoever reads
// here has consumed everything the other end has sent so far.
func (c *Conn) ReadIdle() bool { return c.inRead && c.rd.queued == 0 }

func (c *Conn) Out() *Dir { return c.wr }
func (c *Conn) In() *Dir  { return c.rd }

var errTimeout = os.ErrDeadlineExceeded

func (d *Dir) readable(now time.Time) int {
	if d.StallAt >= 0 && d.Delivered >= d.StallAt {
		if d.stallEnd.IsZero() {
			d.stallEnd = now.Add(d.StallFor)
			d.stalled = true
			if s := simrt.Active; s != nil && d.StallFor < 24*time.Hour {
				time.AfterFunc(d.StallFor, s.Poke)
			}
		}
		if now.Before(d.stallEnd) {
			return 0
		}
	}
	n := d.queued
	if d.Latency != nil {
		n = 0
		for _, s := range d.segs {
			if s.at.After(now) {
				break
			}
			n += len(s.data)
		}
	}
	if d.StallAt >= 0 && d.Delivered < d.StallAt && d.Delivered+n > d.StallAt {
		n = d.StallAt - d.Delivered
	}
	return n
}

func (d *Dir) take(n int) []byte {
	out := make([]byte, 0, n)
	for n > 0 {
		s := &d.segs[0]
		k := len(s.data)
		if k > n {
			k = n
		}
		out = append(out, s.data[:k]...)
		s.data = s.data[k:]
		n -= k
		if len(s.data) == 0 {
			d.segs = d.segs[1:]
		}
	}
	d.Delivered += len(out)
	d.queued -= len(out)
	return out
}

// Read implements io.Reader with short reads, latency, stalls, cuts and deadlines.
func (c *Conn) Read(p []byte) (int, error) {
	c.Reads++
	if c.ReadErrAt > 0 && (c.Reads == c.ReadErrAt || (!c.ReadErrOnce && c.Reads > c.ReadErrAt)) {
		simrt.Yield("read:" + c.name)
		c.net.fire("readerr")
		return 0, c.ReadErr
	}
	if len(p) == 0 {
		return 0, nil
	}
	d := c.rd
	c.inRead, c.rdKick = true, false
	simrt.WaitUntil("read:"+c.name, func() bool {
		now := time.Now()
		if c.rdKick || c.closed || (!c.rdl.IsZero() && !now.Before(c.rdl)) {
			return true
		}
		if d.readable(now) > 0 {
			return true
		}
		if d.stalled && now.Before(d.stallEnd) {
			return false
		}
		return (d.closedW || d.cut) && d.buffered() == 0
	})
	c.inRead = false
	if c.closed {
		return 0, net.ErrClosed
	}
	now := time.Now()
	if c.rdKick || (!c.rdl.IsZero() && !now.Before(c.rdl)) {
		c.rdKick = false
		c.net.fire("deadline")
		return 0, errTimeout
	}
	n := d.readable(now)
	if n == 0 {
		if d.cut {
			if d.CutErr != nil {
				return 0, d.CutErr
			}
			return 0, io.EOF
		}
		return 0, io.EOF
	}
	if n > len(p) {
		n = len(p)
	}
	if c.net.Chunk != nil {
		if m := c.net.Chunk(); m > 0 && n > m {
			n = m
			c.net.fire("chunk")
		}
	}
	copy(p, d.take(n))
	c.net.S.Note("rd %s %d", c.name, n)
	return n, nil
}

// Write implements io.Writer.
func (c *Conn) Write(p []byte) (int, error) {
	c.Writes++
	simrt.Yield("write:" + c.name)
	d := c.wr
	if c.closed {
		return 0, net.ErrClosed
	}
	if c.WriteErrAt > 0 && (c.Writes == c.WriteErrAt || (!c.WriteErrOnce && c.Writes > c.WriteErrAt)) {
		k := 0
		if c.Writes == c.WriteErrAt {
			k = c.WritePartial
			if k > len(p) {
				k = len(p)
			}
			if k > 0 {
				c.accept(p[:k])
			}
		}
		c.net.fire("writeerr")
		return k, c.WriteErr
	}
	if d.Cap > 0 {
		// back-pressure: block (by predicate) while the buffer is full
		total := 0
		for len(p) > 0 {
			room := d.Cap - d.buffered()
			if room <= 0 {
				c.net.fire("backpressure")
				c.inWrite, c.wrKick = true, false
				simrt.WaitUntil("writefull:"+c.name, func() bool {
					return c.wrKick || c.closed || d.closedR || d.cut || d.buffered() < d.Cap || (!c.wdl.IsZero() && !time.Now().Before(c.wdl))
				})
				c.inWrite = false
				if c.closed {
					return total, net.ErrClosed
				}
				if c.wrKick || (!c.wdl.IsZero() && !time.Now().Before(c.wdl)) {
					c.wrKick = false
					c.net.fire("deadline")
					return total, errTimeout
				}
				if d.closedR || (d.cut && !d.CutSilent) {
					return total, syscall.EPIPE
				}
				continue
			}
			k := room
			if k > len(p) {
				k = len(p)
			}
			if n, err := c.accept(p[:k]); err != nil {
				return total + n, err
			}
			total += k
			p = p[k:]
		}
		return total, nil
	}
	if !c.wdl.IsZero() && !time.Now().Before(c.wdl) {
		c.net.fire("deadline")
		return 0, errTimeout
	}
	return c.accept(p)
}

func (c *Conn) accept(p []byte) (int, error) {
	d := c.wr
	if d.closedR {
		return 0, syscall.EPIPE
	}
	if d.cut {
		if d.CutSilent {
			return len(p), nil
		}
		return 0, syscall.EPIPE
	}
	q := p
	if d.CutAt >= 0 && len(d.Tap)+len(p) > d.CutAt {
		room := d.CutAt - len(d.Tap)
		if room < 0 {
			room = 0
		}
		q = p[:room]
		d.cut = true
		c.net.fire("cut")
	}
	if len(q) > 0 {
		at := time.Now()
		if d.Latency != nil {
			if l := d.Latency(); l > 0 {
				at = at.Add(l)
				c.net.fire("latency")
				time.AfterFunc(l, c.net.S.Poke)
			}
		}
		if n := len(d.segs); n > 0 && d.segs[n-1].at.After(at) {
			at = d.segs[n-1].at // keep the byte stream ordered
		}
		d.segs = append(d.segs, seg{data: append([]byte(nil), q...), at: at})
		d.queued += len(q)
		d.Tap = append(d.Tap, q...)
		d.Events = append(d.Events, TapEvent{Step: c.net.S.Steps, N: len(q)})
		c.net.S.Note("wr %s %d", c.name, len(q))
	}
	if d.cut && !d.CutSilent && len(q) < len(p) {
		return len(q), syscall.EPIPE
	}
	return len(p), nil
}

// IsCut reports whether the cut of this direction has fired.
func (d *Dir) IsCut() bool { return d.cut }

// StallNow stops delivery on this direction from the current offset on, forever.
func (d *Dir) StallNow() {
	d.StallAt = d.Delivered
	d.StallFor = 100000 * time.Hour
}

// CutNow cuts the direction this end writes to at the current offset.
func (d *Dir) CutNow() { d.CutAt = len(d.Tap) }

// Close closes both directions of this end.
func (c *Conn) Close() error {
	if c.closed {
		return net.ErrClosed
	}
	c.closed = true
	c.wr.closedW = true
	c.rd.closedR = true
	c.net.S.Note("close %s", c.name)
	c.net.S.Poke()
	return nil
}

// CloseWrite half-closes: the peer reads io.EOF after draining.
func (c *Conn) CloseWrite() { c.wr.closedW = true; c.net.S.Poke() }

func (c *Conn) LocalAddr() net.Addr  { return addr(c.name) }
func (c *Conn) RemoteAddr() net.Addr { return addr("peer-of-" + c.name) }

func (c *Conn) SetDeadline(t time.Time) error {
	c.SetReadDeadline(t)
	c.SetWriteDeadline(t)
	return nil
}

func (c *Conn) arm(t time.Time) {
	c.DeadlineCalls++
	if !t.IsZero() {
		if d := time.Until(t); d > 0 {
			time.AfterFunc(d, c.net.S.Poke)
		}
	}
}

func (c *Conn) SetReadDeadline(t time.Time) error {
	if c.closed {
		return net.ErrClosed
	}
	c.rdl = t
	if c.inRead && !t.IsZero() && !t.After(time.Now()) {
		c.rdKick = true
		c.net.S.Poke()
	}
	c.arm(t)
	return nil
}

func (c *Conn) SetWriteDeadline(t time.Time) error {
	if c.closed {
		return net.ErrClosed
	}
	c.wdl = t
	if c.inWrite && !t.IsZero() && !t.After(time.Now()) {
		c.wrKick = true
		c.net.S.Poke()
	}
	c.arm(t)
	return nil
}

// Plain hides everything but Read and Write (a transport without deadlines).
type Plain struct{ C *Conn }

func (p Plain) Read(b []byte) (int, error)  { return p.C.Read(b) }
func (p Plain) Write(b []byte) (int, error) { return p.C.Write(b) }

// Errors used by fault plans.
var (
	ErrReset    = fmt.Errorf("simnet: %w", syscall.ECONNRESET)
	ErrInjected = errors.New("simnet: injected I/O error")
	// ErrInjectedTimeout is an injected I/O error that is a net.Error with Timeout() == true (what a deadline somebody
	// else put on the connection, or ETIMEDOUT from a dead peer, looks like) although no deadline of the simulated
	// connection has passed.
	ErrInjectedTimeout error = &net.OpError{Op: "io", Net: "sim", Err: timeoutErr{}}
	// ErrInjectedETIMEDOUT is the errno form (its Timeout method reports true as well).
	ErrInjectedETIMEDOUT error = &net.OpError{Op: "io", Net: "sim", Err: syscall.ETIMEDOUT}
)

type timeoutErr struct{}

func (timeoutErr) Error() string   { return "simnet: injected i/o timeout" }
func (timeoutErr) Timeout() bool   { return true }
func (timeoutErr) Temporary() bool { return true }
