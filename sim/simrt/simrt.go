// Package simrt is the controlled scheduler runtime of the simulator: every
// goroutine of the system under test is a Task that runs only when the
// scheduler resumes it, and parks again at the next yield point (inserted by
// the instrumenter before/after every synchronisation operation, or called by
// the simulated transport). Which task runs next, in which order ready select
// clauses and map keys are visited and when the fake clock jumps are all draws
// from one Chooser, so one seed is one exactly repeatable execution.
package simrt

import (
	"bytes"
	"fmt"
	"hash"
	"hash/fnv"
	"runtime"
	"sort"
	"strconv"
	"strings"
	"sync"
	"sync/atomic"
	"time"
)

// Task states.
const (
	stRunning = iota // running, or really blocked in a channel op / Cond / sleep
	stParked         // parked at a yield point, waiting for the scheduler
	stDone
)

// Task is one controlled goroutine.
type Task struct {
	ID     int
	Name   string
	resume chan struct{}
	state  int
	pred   func() bool
	Site   string
	spawn  int
	prio   int
	Panic  any
	Stack  string
	// Daemon tasks do not keep a phase alive (peers that wait for input forever).
	Daemon bool
	// Frozen tasks are never scheduled (a stalled / suspended peer process).
	Frozen bool
}

// Strategy kinds.
const (
	StratUniform = iota
	StratSticky
	StratPCT
)

// Sched is the scheduler of one run.
type Sched struct {
	mu      sync.Mutex
	tasks   []*Task
	live    []*Task // tasks that are not done (what the scheduling loop looks at)
	byGoid  map[uint64]*Task
	Ch      *Chooser
	arrived chan struct{}
	Steps   int
	wait    func()
	last    *Task
	start   time.Time

	Strat       int
	StickyPerm  int // permille of "keep the current task"
	pctPoints   map[int]bool
	pctLow      int
	PausePerm   int // permille of a process pause per step
	Pauses      int
	Decisions   int // scheduling decisions with >1 enabled task
	Preemptions int // decisions where the previous task was enabled but another one was chosen
	logH        hash.Hash64
	ilvH        hash.Hash64
	Trace       []string // first TraceMax scheduling decisions
	TraceMax    int
	Probes      map[string]int
	Invariant   func() // evaluated after every step, all tasks parked
	dead        bool
	HarnessErr  []string

	// dense preemption (instrumenter rule 7): statement-level preemption points in front of stores to shared memory,
	// conditions that read it and loop bodies; armed in a fraction of the runs
	denseMode     int // 0 off, 1 the sites of one hash bucket, 2 drawn visit numbers
	denseBucket   uint32
	denseSkip     int
	denseLeft     int
	densePts      map[int]bool
	denseN        int
	force         *Task
	DensePreempts int
	DenseVisits   int
}

const denseBuckets = 48

var denseArmed atomic.Bool

// ConfigureDense draws whether (and how) this run preempts tasks at the statement-level points the instrumenter
// inserted (rule 7). A zero draw is "off", so a minimised replay has it only when it matters.
func (s *Sched) ConfigureDense() string {
	denseArmed.Store(false)
	s.denseMode = 0
	switch s.Ch.Int("dense", 8) {
	case 5, 6:
		s.denseMode = 1
		s.denseBucket = uint32(s.Ch.Int("dense", denseBuckets))
		s.denseSkip = []int{0, 0, 1, 2, 5, 17}[s.Ch.Int("dense", 6)]
		s.denseLeft = 1 + s.Ch.Int("dense", 4)
		denseArmed.Store(true)
		return fmt.Sprintf("dense(bucket=%d,skip=%d,n=%d)", s.denseBucket, s.denseSkip, s.denseLeft)
	case 7:
		s.denseMode = 2
		n := []int{40, 150, 600, 2500, 10000}[s.Ch.Int("dense", 5)]
		d := 1 + s.Ch.Int("dense", 5)
		s.densePts = map[int]bool{}
		for i := 0; i < d; i++ {
			s.densePts[1+s.Ch.Int("dense", n)] = true
		}
		denseArmed.Store(true)
		return fmt.Sprintf("dense(points=%d,in=%d)", d, n)
	}
	return ""
}

// ForceDense arms every site (used by scenarios that exist only to interleave straight-line code): each visit
// preempts with chance 1/den.
func (s *Sched) ForceDense(den int) {
	s.denseMode = 3
	s.denseLeft = den
	denseArmed.Store(true)
}

// Dense is a statement-level preemption point (instrumenter rule 7). When it fires the calling task parks and the
// scheduler's next choice is another task, if one is enabled.
func Dense(site string) {
	if !denseArmed.Load() {
		return
	}
	s := Active
	if s == nil || s.denseMode == 0 {
		return
	}
	hit := false
	switch s.denseMode {
	case 1:
		h := fnv.New32a()
		h.Write([]byte(site))
		if h.Sum32()%denseBuckets == s.denseBucket {
			s.DenseVisits++
			if s.denseSkip > 0 {
				s.denseSkip--
			} else if s.denseLeft > 0 {
				s.denseLeft--
				hit = true
			}
		}
	case 2:
		s.denseN++
		s.DenseVisits++
		hit = s.densePts[s.denseN]
	case 3:
		t := s.cur()
		if t == nil {
			return
		}
		s.DenseVisits++
		if s.Ch.Int("dense", s.denseLeft) == s.denseLeft-1 {
			s.mu.Lock()
			s.force = t
			s.mu.Unlock()
			s.park(t, "dense:"+site, nil)
		}
		return
	}
	if !hit {
		return
	}
	t := s.cur()
	if t == nil {
		return
	}
	s.mu.Lock()
	s.force = t
	s.mu.Unlock()
	s.park(t, "dense:"+site, nil)
}

// Active is the installed scheduler (nil = transparent mode: every primitive
// delegates to the real one).
var Active *Sched

func goid() uint64 {
	var buf [64]byte
	n := runtime.Stack(buf[:], false)
	b := buf[len("goroutine "):n]
	i := bytes.IndexByte(b, ' ')
	v, _ := strconv.ParseUint(string(b[:i]), 10, 64)
	return v
}

var resets []func()

// RegisterReset is called from init functions the instrumenter generates (rule 8): f puts package-level containers of an
// instrumented package back to their initial values.
func RegisterReset(f func()) { resets = append(resets, f) }

// ResetGlobals runs at the start of every simulated run, so that no run sees what an earlier run of the same process left
// in a package-level free list, cache or scratch buffer.
func ResetGlobals() {
	for _, f := range resets {
		f()
	}
}

// New creates a scheduler; wait must be synctest.Wait of the enclosing bubble.
func New(ch *Chooser, wait func()) *Sched {
	s := &Sched{byGoid: map[uint64]*Task{}, Ch: ch, arrived: make(chan struct{}, 1<<16), wait: wait,
		start: time.Now(), logH: fnv.New64a(), ilvH: fnv.New64a(), TraceMax: 60, Probes: map[string]int{}}
	denseArmed.Store(false)
	return s
}

// ConfigureStrategy draws the run's scheduling strategy (swarm style).
func (s *Sched) ConfigureStrategy() string {
	name := s.configureStrategy()
	if d := s.ConfigureDense(); d != "" {
		name += "+" + d
	}
	return name
}

func (s *Sched) configureStrategy() string {
	switch s.Ch.Int("strategy", 6) {
	case 0:
		s.Strat = StratUniform
		return "uniform"
	case 1:
		s.Strat, s.StickyPerm = StratSticky, 500
		return "sticky.5"
	case 2:
		s.Strat, s.StickyPerm = StratSticky, 900
		return "sticky.9"
	case 3:
		s.Strat, s.StickyPerm = StratSticky, 990
		return "sticky.99"
	default:
		s.Strat = StratPCT
		d := 1 + s.Ch.Int("strategy", 3)
		k := []int{50, 150, 400, 1200}[s.Ch.Int("strategy", 4)]
		s.pctPoints = map[int]bool{}
		for i := 0; i < d; i++ {
			s.pctPoints[s.Ch.Int("strategy", k)] = true
		}
		return fmt.Sprintf("pct(d=%d,k=%d)", d, k)
	}
}

// Now is the simulated time since the start of the run.
func (s *Sched) Now() time.Duration { return time.Since(s.start) }

func (s *Sched) cur() *Task {
	g := goid()
	s.mu.Lock()
	t := s.byGoid[g]
	s.mu.Unlock()
	return t
}

// Cur returns the calling task (nil for a non-task goroutine).
func Cur() *Task {
	if s := Active; s != nil {
		return s.cur()
	}
	return nil
}

// Probe counts a "rare condition was hit" event.
func Probe(name string) {
	if s := Active; s != nil {
		s.mu.Lock()
		s.Probes[name]++
		s.mu.Unlock()
	}
}

// Go spawns a task (a plain goroutine in transparent mode). Inserted by the
// instrumenter in place of every go statement.
func Go(site string, f func()) {
	s := Active
	if s == nil {
		go f()
		return
	}
	s.Spawn(site, f)
}

// Spawn registers and starts (parked) a new task.
func (s *Sched) Spawn(name string, f func()) *Task {
	parent := s.cur()
	t := &Task{resume: make(chan struct{}), state: stParked, Site: "start"}
	s.mu.Lock()
	if parent != nil {
		parent.spawn++
		t.Name = fmt.Sprintf("%s>%s#%d", parent.Name, name, parent.spawn)
	} else {
		t.Name = name
	}
	t.ID = len(s.tasks)
	s.tasks = append(s.tasks, t)
	s.live = append(s.live, t)
	if s.Strat == StratPCT {
		t.prio = 1 + s.Ch.Int("sched", 1<<16)
	}
	s.mu.Unlock()
	go func() {
		g := goid()
		s.mu.Lock()
		s.byGoid[g] = t
		s.mu.Unlock()
		<-t.resume
		defer func() {
			if r := recover(); r != nil {
				buf := make([]byte, 16384)
				t.Panic = r
				t.Stack = string(buf[:runtime.Stack(buf, false)])
			}
			s.mu.Lock()
			t.state = stDone
			delete(s.byGoid, g)
			s.mu.Unlock()
			select {
			case s.arrived <- struct{}{}:
			default:
			}
		}()
		f()
	}()
	return t
}

func (s *Sched) park(t *Task, site string, pred func() bool) {
	s.mu.Lock()
	t.state = stParked
	t.pred = pred
	t.Site = site
	s.mu.Unlock()
	select {
	case s.arrived <- struct{}{}:
	default:
	}
	<-t.resume
}

// Yield is a scheduling point.
func Yield(site string) {
	s := Active
	if s == nil {
		return
	}
	if t := s.cur(); t != nil {
		s.park(t, site, nil)
	}
}

// Woke is called right after a possibly-blocking real operation: a goroutine
// that was woken by another task's action parks again before it touches
// anything, so at most one task executes library code at any time.
func Woke(site string) { Yield(site) }

// Settle calls f (a context.CancelFunc: it closes a channel inside the
// standard library) and yields, so that every goroutine f woke has parked again
// before the caller makes anything else ready (instrumenter rule 6).
func Settle(f func(), site string) {
	f()
	Yield(site)
}

// Block marks that the task is about to really block; it is also a yield, so
// the operation itself is a scheduling point.
func Block(site string) {
	s := Active
	if s == nil {
		return
	}
	if t := s.cur(); t != nil {
		s.park(t, site, nil)
		s.mu.Lock()
		t.Site = "blocked:" + site
		s.mu.Unlock()
	}
}

// MarkBlocked records that the task is about to really block in a
// multi-clause select whose clauses were just polled (no yield: see the
// instrumenter's select rule).
func MarkBlocked(site string) {
	s := Active
	if s == nil {
		return
	}
	if t := s.cur(); t != nil {
		s.mu.Lock()
		t.Site = "blocked:" + site
		s.mu.Unlock()
	}
}

// WaitUntil parks until pred holds. pred is evaluated by the scheduler
// goroutine while every task is parked.
func WaitUntil(site string, pred func() bool) {
	s := Active
	if s == nil {
		panic("simrt.WaitUntil without scheduler at " + site)
	}
	t := s.cur()
	if t == nil {
		if pred() {
			return
		}
		panic("simrt: harness bug: non-task goroutine would block at " + site)
	}
	s.park(t, site, pred)
}

// Sleep parks the calling task for d of simulated time.
func Sleep(d time.Duration) {
	s := Active
	if s == nil {
		time.Sleep(d)
		return
	}
	until := time.Now().Add(d)
	time.AfterFunc(d, s.Poke)
	WaitUntil("sleep", func() bool { return !time.Now().Before(until) })
}

// Poke wakes the scheduler (used by timers).
func (s *Sched) Poke() {
	select {
	case s.arrived <- struct{}{}:
	default:
	}
}

// SelectOrder returns the polling order for an n-clause select (rule 3).
func SelectOrder(site string, n int) []int {
	s := Active
	if s == nil {
		p := make([]int, n)
		for i := range p {
			p[i] = i
		}
		return p
	}
	Yield("select:" + site)
	return s.Ch.Perm("select", n)
}

// Zero returns the zero value of a channel's element type (instrumenter helper).
func Zero[T any](c <-chan T) (T, bool) { var z T; return z, false }

// RecvIf returns c if on, else a nil channel (never ready).
func RecvIf[T any](c <-chan T, on bool) <-chan T {
	if on {
		return c
	}
	return nil
}

// SendIf returns c if on, else a nil channel (never ready).
func SendIf[T any](c chan<- T, on bool) chan<- T {
	if on {
		return c
	}
	return nil
}

// MapKeys returns the keys of m sorted canonically, then permuted by the
// chooser (rule 5): Go's randomised map iteration becomes a recorded choice.
func MapKeys[K comparable, V any](m map[K]V) []K {
	keys := make([]K, 0, len(m))
	for k := range m {
		keys = append(keys, k)
	}
	if len(keys) < 2 {
		return keys
	}
	strs := make([]string, len(keys))
	idx := make([]int, len(keys))
	for i, k := range keys {
		strs[i] = fmt.Sprintf("%#v", k)
		idx[i] = i
	}
	sort.Slice(idx, func(a, b int) bool { return strs[idx[a]] < strs[idx[b]] })
	out := make([]K, len(keys))
	for i, j := range idx {
		out[i] = keys[j]
	}
	if s := Active; s != nil {
		p := s.Ch.Perm("maporder", len(out))
		o2 := make([]K, len(out))
		for i, j := range p {
			o2[i] = out[j]
		}
		out = o2
	}
	return out
}

// Status of a Run phase.
type Status int

const (
	AllDone   Status = iota // every non-daemon task finished
	CondMet                 // the phase condition became true
	Quiescent               // nothing enabled and nothing pending within the horizon
	MaxSteps
)

func (st Status) String() string {
	return [...]string{"all-done", "cond", "quiescent", "max-steps"}[st]
}

func (s *Sched) logEvent(t *Task, nEnabled int) {
	fmt.Fprintf(s.logH, "%d|%s|%s|%d\n", s.Steps, t.Name, t.Site, s.Now())
	if nEnabled > 1 {
		fmt.Fprintf(s.ilvH, "%s|%s\n", t.Name, t.Site)
	}
	if len(s.Trace) < s.TraceMax {
		s.Trace = append(s.Trace, fmt.Sprintf("%d %s@%s t=%v en=%d", s.Steps, t.Name, t.Site, s.Now(), nEnabled))
	}
}

// Note mixes an external event (bytes moved on the transport, …) into the
// event-log hash. It never draws and never reads a real clock.
func (s *Sched) Note(format string, a ...any) {
	fmt.Fprintf(s.logH, format, a...)
	s.logH.Write([]byte{'\n'})
}

// LogHash is the hash of the complete event log so far.
func (s *Sched) LogHash() uint64 { return s.logH.Sum64() }

// InterleavingHash hashes the (task, site) sequence of contested decisions.
func (s *Sched) InterleavingHash() uint64 { return s.ilvH.Sum64() }

func (s *Sched) pick(en []*Task) *Task {
	if len(en) == 1 {
		s.force = nil
		return en[0]
	}
	s.Decisions++
	// order: previous task first (so that draw 0 = "keep going"), then by id
	lastIdx := -1
	for i, e := range en {
		if e == s.last {
			lastIdx = i
		}
	}
	if lastIdx > 0 {
		l := en[lastIdx]
		copy(en[1:lastIdx+1], en[:lastIdx])
		en[0] = l
	}
	var t *Task
	if f := s.force; f != nil {
		s.force = nil
		if lastIdx >= 0 && en[0] == f {
			// a dense preemption point fired: somebody else runs now
			t = en[1+s.Ch.Int("dense", len(en)-1)]
			if s.Strat == StratPCT {
				s.pctLow--
				f.prio = s.pctLow
			}
			s.DensePreempts++
			s.Preemptions++
			return t
		}
	}
	switch s.Strat {
	case StratSticky:
		if lastIdx >= 0 {
			if s.Ch.Int("sched", 1000) < s.StickyPerm {
				t = en[0]
			} else {
				t = en[1+s.Ch.Int("sched", len(en)-1)]
			}
		} else {
			t = en[s.Ch.Int("sched", len(en))]
		}
	case StratPCT:
		if s.pctPoints[s.Decisions] && lastIdx >= 0 {
			s.pctLow--
			en[0].prio = s.pctLow
		}
		t = en[0]
		for _, e := range en[1:] {
			if e.prio > t.prio {
				t = e
			}
		}
	default:
		t = en[s.Ch.Int("sched", len(en))]
	}
	if lastIdx >= 0 && t != en[0] {
		s.Preemptions++
	}
	return t
}

// Run drives the tasks until cond holds (checked between steps), every
// non-daemon task is done, nothing can happen within horizon of simulated
// time, or maxSteps more steps were taken.
func (s *Sched) Run(cond func() bool, maxSteps int, horizon time.Duration) Status {
	limit := s.Steps + maxSteps
	for s.Steps < limit {
		s.wait()
		if s.Invariant != nil {
			s.Invariant()
			// the hook may have woken a blocked task (a cancelled context, a closed connection): let it reach its
			// next yield point before the enabled set is computed, or the set would depend on real time
			s.wait()
		}
		if cond != nil && cond() {
			return CondMet
		}
		s.mu.Lock()
		var en []*Task
		alive := 0
		// finished tasks are dropped from the live list (a long run spawns one
		// short-lived helper per transmit call)
		k := 0
		for _, t := range s.live {
			if t.state != stDone {
				s.live[k] = t
				k++
			}
		}
		for i := k; i < len(s.live); i++ {
			s.live[i] = nil
		}
		s.live = s.live[:k]
		for _, t := range s.live {
			if t.state == stDone {
				continue
			}
			if !t.Daemon {
				alive++
			}
			if t.state == stParked && !t.Frozen && (t.pred == nil || t.pred()) {
				en = append(en, t)
			}
		}
		s.mu.Unlock()
		if alive == 0 {
			return AllDone
		}
		if len(en) == 0 {
			// nothing enabled: let simulated time advance to the next timer
			drained := false
			for {
				select {
				case <-s.arrived:
					drained = true
					continue
				default:
				}
				break
			}
			if drained {
				// a task may have parked after the enabled set was computed: look again before letting time pass
				// (an arrival swallowed here used to be a lost wake-up until the next timer fired)
				continue
			}
			tm := time.NewTimer(horizon)
			select {
			case <-s.arrived:
				tm.Stop()
				continue
			case <-tm.C:
				return Quiescent
			}
		}
		if s.PausePerm > 0 && s.Ch.Int("pause", 1000) >= 1000-s.PausePerm {
			// process pause: the fake clock runs while every task is parked
			d := []time.Duration{time.Millisecond, 20 * time.Millisecond, 300 * time.Millisecond, 2 * time.Second, 11 * time.Second, 61 * time.Second}[s.Ch.Int("pause", 6)]
			s.Pauses++
			s.Note("pause %d", d)
			time.Sleep(d)
			continue
		}
		t := s.pick(en)
		s.last = t
		s.logEvent(t, len(en))
		s.mu.Lock()
		t.state = stRunning
		t.pred = nil
		s.mu.Unlock()
		s.Steps++
		t.resume <- struct{}{}
	}
	return MaxSteps
}

// Tasks returns all tasks ever spawned.
func (s *Sched) Tasks() []*Task { return s.tasks }

// Stuck lists the tasks that are not done, with the site they wait at.
func (s *Sched) Stuck() []string {
	s.mu.Lock()
	defer s.mu.Unlock()
	var out []string
	for _, t := range s.tasks {
		if t.state != stDone {
			k := "parked"
			if t.state == stRunning {
				k = "blocked"
			}
			out = append(out, fmt.Sprintf("%s@%s(%s)", t.Name, t.Site, k))
		}
	}
	return out
}

// Panics lists recovered task panics as "task: value\nstack".
func (s *Sched) Panics() []string {
	var out []string
	for _, t := range s.tasks {
		if t.Panic != nil {
			out = append(out, fmt.Sprintf("%s: %v\n%s", t.Name, t.Panic, t.Stack))
		}
	}
	return out
}

// Done reports whether a task finished. It takes no lock so that it can be
// used inside predicates (which the scheduler evaluates while holding its own
// lock); the state is only ever read while the task is parked or gone.
func (t *Task) Done() bool { return t.state == stDone }

// ShortStack trims a panic stack to the frames below the panic call.
func ShortStack(st string, max int) string {
	lines := strings.Split(st, "\n")
	var keep []string
	seen := false
	for _, l := range lines {
		if strings.HasPrefix(l, "panic(") {
			seen = true
			keep = keep[:0]
			continue
		}
		if seen {
			keep = append(keep, l)
		}
	}
	if !seen {
		keep = lines
	}
	if len(keep) > max {
		keep = keep[:max]
	}
	return strings.Join(keep, "\n")
}
