// Package simsync replaces "sync" in instrumented code. Under a scheduler a
// Lock is a yield whose enabling predicate is "not held", so a task is never
// released into a lock it cannot take and real mutexes are never contended;
// with no scheduler installed everything delegates to the real sync types.
package simsync

import (
	"sort"
	"sync"

	"verif.sim/simrt"
)

type Locker = sync.Locker
type WaitGroup = sync.WaitGroup
type Once = sync.Once
type Map = sync.Map
type Cond = sync.Cond

func NewCond(l Locker) *Cond { return sync.NewCond(l) }

type Mutex struct {
	real sync.Mutex
	held bool
}

func (m *Mutex) Lock() {
	if simrt.Active == nil {
		m.real.Lock()
		return
	}
	simrt.WaitUntil("lock", func() bool { return !m.held })
	m.held = true
	track(m)
}

func (m *Mutex) Unlock() {
	if simrt.Active == nil {
		m.real.Unlock()
		return
	}
	if !m.held {
		panic("simsync: unlock of unlocked mutex")
	}
	m.held = false
	untrack(m)
	simrt.Yield("unlock")
}

func (m *Mutex) TryLock() bool {
	if simrt.Active == nil {
		return m.real.TryLock()
	}
	if m.held {
		return false
	}
	m.held = true
	track(m)
	return true
}

type RWMutex struct {
	real    sync.RWMutex
	writer  bool
	readers int
}

func (m *RWMutex) Lock() {
	if simrt.Active == nil {
		m.real.Lock()
		return
	}
	simrt.WaitUntil("wlock", func() bool { return !m.writer && m.readers == 0 })
	m.writer = true
}

func (m *RWMutex) Unlock() {
	if simrt.Active == nil {
		m.real.Unlock()
		return
	}
	if !m.writer {
		panic("simsync: unlock of unlocked rwmutex")
	}
	m.writer = false
	simrt.Yield("wunlock")
}

func (m *RWMutex) RLock() {
	if simrt.Active == nil {
		m.real.RLock()
		return
	}
	simrt.WaitUntil("rlock", func() bool { return !m.writer })
	m.readers++
}

func (m *RWMutex) RUnlock() {
	if simrt.Active == nil {
		m.real.RUnlock()
		return
	}
	m.readers--
	simrt.Yield("runlock")
}

func (m *RWMutex) RLocker() Locker { return (*rlocker)(m) }

type rlocker RWMutex

func (r *rlocker) Lock()   { (*RWMutex)(r).RLock() }
func (r *rlocker) Unlock() { (*RWMutex)(r).RUnlock() }

// Pool replaces sync.Pool: the real one hands out objects depending on the
// garbage collector and on which P a goroutine runs on, and keeps them from one
// run to the next. Under the scheduler it is a stack that is emptied at the
// start of every run; Get misses (as after a collection) with a seeded chance.
type Pool struct {
	New   func() any
	real  sync.Pool
	items []any
	owner *simrt.Sched
}

func (p *Pool) Get() any {
	s := simrt.Active
	if s == nil {
		if x := p.real.Get(); x != nil {
			return x
		}
		if p.New != nil {
			return p.New()
		}
		return nil
	}
	if p.owner != s {
		p.owner, p.items = s, nil
	}
	if n := len(p.items); n > 0 && !s.Ch.Chance("pool", 1, 4) {
		x := p.items[n-1]
		p.items = p.items[:n-1]
		return x
	}
	if p.New != nil {
		return p.New()
	}
	return nil
}

func (p *Pool) Put(x any) {
	s := simrt.Active
	if s == nil {
		p.real.Put(x)
		return
	}
	if p.owner != s {
		p.owner, p.items = s, nil
	}
	p.items = append(p.items, x)
}

// Who holds which mutex, per run: lets a harness tell a lock that was leaked by
// a task that has gone away from one that is merely contended.
var (
	heldBy    = map[*Mutex]string{}
	heldSched *simrt.Sched
)

func track(m *Mutex) {
	if heldSched != simrt.Active {
		heldBy, heldSched = map[*Mutex]string{}, simrt.Active
	}
	name := "(main)"
	if t := simrt.Cur(); t != nil {
		name = t.Name
	}
	heldBy[m] = name
}

func untrack(m *Mutex) {
	if heldSched == simrt.Active {
		delete(heldBy, m)
	}
}

// Held returns the names of the tasks that hold a mutex right now (sorted, with repetitions).
func Held() []string {
	if heldSched != simrt.Active {
		return nil
	}
	var out []string
	for _, n := range heldBy {
		out = append(out, n)
	}
	sort.Strings(out)
	return out
}
